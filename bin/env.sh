# sourced by every entry script
export GOFLAGS=-mod=mod GOPROXY=off GOSUMDB=off GOTOOLCHAIN=local GONOSUMDB=* GONOSUMCHECK=1 GOFLAGS=-mod=mod
export VERIF_DIR="${VERIF_DIR:-/verif}"
export VERIF_BUILD_DIR="${VERIF_BUILD_DIR:-$VERIF_DIR/.build}"
