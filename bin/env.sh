# sourced by every entry script
export GOFLAGS=-mod=mod GOPROXY=off GOSUMDB=off GOTOOLCHAIN=local
# the tree the script lives in (so that a snapshot of /verif runs its own code)
if [ -z "$VERIF_DIR" ]; then
  VERIF_DIR="$(cd "$(dirname "$0")/.." && pwd)"
fi
export VERIF_DIR
export VERIF_BUILD_DIR="${VERIF_BUILD_DIR:-$VERIF_DIR/.build}"
