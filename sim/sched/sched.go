// Package sched is the deterministic scheduler for simulated caller threads.
//
// Threads are real goroutines that are parked and released one at a time; the
// choice source (the tape) decides who runs next, so a run is one totally
// ordered, replayable sequence of steps. Hand-off uses RAW read/write system
// calls on pipes: unlike channels, mutexes or syscall.Read they are invisible
// to the race detector, so the happens-before relation the detector sees
// consists only of the library's own synchronisation (plus goroutine start and
// join). A data race in the library is therefore reported even though the
// execution is fully serialised - and it is reported on every replay.
//
// Blocking inside the library is real and detected, not modelled: a released
// thread that neither reaches a yield point nor finishes is looked up in
// runtime.Stack; if it sits in a sync primitive it is marked blocked and
// another thread is chosen. If every unfinished thread is blocked the run is a
// deadlock.
package sched

import (
	"fmt"
	"runtime"
	"strconv"
	"strings"
	"sync"
	"syscall"
	"time"
	"unsafe"
)

type pipe struct{ r, w int }

func newPipe(nonblockRead bool) pipe {
	var fds [2]int
	if err := syscall.Pipe(fds[:]); err != nil {
		panic(err)
	}
	if nonblockRead {
		syscall.SetNonblock(fds[0], true)
	}
	return pipe{fds[0], fds[1]}
}

func (p pipe) close() { syscall.Close(p.r); syscall.Close(p.w) }

//go:norace
func rawWrite(fd int, b []byte) {
	for {
		n, _, e := syscall.Syscall(syscall.SYS_WRITE, uintptr(fd), uintptr(unsafe.Pointer(&b[0])), uintptr(len(b)))
		if e == syscall.EINTR {
			continue
		}
		if e != 0 || int(n) != len(b) {
			panic(fmt.Sprintf("sched: rawWrite n=%d e=%v", n, e))
		}
		return
	}
}

//go:norace
func rawReadBlocking(fd int, b []byte) {
	for {
		n, _, e := syscall.Syscall(syscall.SYS_READ, uintptr(fd), uintptr(unsafe.Pointer(&b[0])), uintptr(len(b)))
		if e == syscall.EINTR {
			continue
		}
		if e != 0 || int(n) != len(b) {
			panic(fmt.Sprintf("sched: rawRead n=%d e=%v", n, e))
		}
		return
	}
}

//go:norace
func rawReadNonblock(fd int, b []byte) bool {
	for {
		n, _, e := syscall.RawSyscall(syscall.SYS_READ, uintptr(fd), uintptr(unsafe.Pointer(&b[0])), uintptr(len(b)))
		if e == syscall.EINTR {
			continue
		}
		if e == syscall.EAGAIN {
			return false
		}
		if e != 0 || int(n) != len(b) {
			panic(fmt.Sprintf("sched: rawReadNB n=%d e=%v", n, e))
		}
		return true
	}
}

//go:norace
func curGID() int64 {
	var buf [64]byte
	n := runtime.Stack(buf[:], false)
	s := buf[len("goroutine "):n]
	var id int64
	for _, c := range s {
		if c < '0' || c > '9' {
			break
		}
		id = id*10 + int64(c-'0')
	}
	return id
}

type gstate struct {
	state string
	stack string
}

var stackBuf = make([]byte, 2<<20)

func goroutineStates() map[int64]gstate {
	buf := stackBuf
	n := runtime.Stack(buf, true)
	res := map[int64]gstate{}
	for _, blk := range strings.Split(string(buf[:n]), "\n\n") {
		if !strings.HasPrefix(blk, "goroutine ") {
			continue
		}
		line := blk
		if i := strings.IndexByte(blk, '\n'); i >= 0 {
			line = blk[:i]
		}
		rest := line[len("goroutine "):]
		sp := strings.IndexByte(rest, ' ')
		if sp < 0 {
			continue
		}
		id, _ := strconv.ParseInt(rest[:sp], 10, 64)
		st := rest[sp+2:]
		if i := strings.IndexAny(st, ",]"); i >= 0 {
			st = st[:i]
		}
		if st == "semacquire" && !strings.Contains(blk, "sync.runtime_Semacquire") {
			// the runtime's own semaphores (stop-the-world, GC start) use the
			// same wait reason as sync.WaitGroup.Wait; a thread that is merely
			// waiting for the world to restart is running, not blocked in the
			// library (seen once in 300 runs at GOMAXPROCS=16: the scheduler's
			// own runtime.Stack call held worldsema)
			st = "semacquire (runtime)"
		}
		res[id] = gstate{st, blk}
	}
	return res
}

var blockedStates = map[string]bool{
	"semacquire": true, "sync.WaitGroup.Wait": true, "sync.Mutex.Lock": true, "sync.RWMutex.Lock": true,
	"sync.RWMutex.RLock": true, "sync.Cond.Wait": true, "chan receive": true, "chan send": true, "select": true,
	"chan receive (nil chan)": true, "chan send (nil chan)": true, "select (no cases)": true,
}

const (
	stNew = iota
	stParked
	stRunning
	stBlocked
	stDone
)

type Thread struct {
	ID       int
	gid      int64
	resume   pipe
	state    int
	LastSite string
	Fn       func()
	Steps    int
	WasBlocked bool
	pendingRelease bool
	blockSamples   int
}

// Picker chooses the index of the next thread among the runnable ones.
type Picker func(runnable []*Thread, last *Thread) int

type Sched struct {
	toSched pipe
	Threads []*Thread
	Pick    Picker
	Trace   []string // "thread@site" per step
	BlockedEvents int
	Released int // blocked threads that later continued
	Limit   time.Duration // wall-clock limit for one step (watchdog)
	HungThread *Thread
	HungStack  string
	// MaxSteps bounds the scheduled part of a run: after that many steps the
	// remaining threads are run to completion one after the other, lowest ID
	// first, without consulting the picker and without parking at yield
	// points (still one thread at a time, still replayable).
	MaxSteps int
	Capped   bool
	free     *Thread
}

var cur *Sched

func New(pick Picker, limit time.Duration) *Sched {
	return &Sched{toSched: newPipe(true), Pick: pick, Limit: limit}
}

func (s *Sched) Add(fn func()) *Thread {
	th := &Thread{ID: len(s.Threads), resume: newPipe(false), Fn: fn}
	s.Threads = append(s.Threads, th)
	return th
}

func (s *Sched) Close() {
	s.toSched.close()
	for _, th := range s.Threads {
		th.resume.close()
	}
}

//go:norace
func lookupThread() *Thread {
	s := cur
	if s == nil {
		return nil
	}
	g := curGID()
	for _, th := range s.Threads {
		if th.gid == g {
			return th
		}
	}
	return nil
}

// Yield parks the calling simulated thread until the scheduler releases it
// again. Calls from goroutines that are not simulated threads return at once.
//
//go:norace
func Yield(site string) {
	th := lookupThread()
	if th == nil {
		return
	}
	if cur.free == th {
		return
	}
	th.LastSite = site
	rawWrite(cur.toSched.w, []byte{byte(th.ID), 'Y'})
	var b [1]byte
	rawReadBlocking(th.resume.r, b[:])
}

//go:norace
func (s *Sched) threadMain(th *Thread, wg *sync.WaitGroup) {
	defer wg.Done()
	th.gid = curGID()
	rawWrite(s.toSched.w, []byte{byte(th.ID), 'S'})
	var b [1]byte
	rawReadBlocking(th.resume.r, b[:])
	th.Fn()
	rawWrite(s.toSched.w, []byte{byte(th.ID), 'D'})
}

//go:norace
func (s *Sched) drain() bool {
	got := false
	var m [2]byte
	for rawReadNonblock(s.toSched.r, m[:]) {
		th := s.Threads[m[0]]
		if th.pendingRelease {
			// it was seen blocked and has now reached a yield point or finished:
			// counted here, at the one place every released thread passes, so
			// that the count does not depend on when the scheduler looked
			th.pendingRelease = false
			s.Released++
		}
		switch m[1] {
		case 'S', 'Y':
			th.state = stParked
		case 'D':
			th.state = stDone
		}
		got = true
	}
	return got
}

// waitQuiescent returns when every thread is parked, blocked in a sync
// primitive, or done. It returns false if a thread kept running past the
// wall-clock limit (livelock).
//
//go:norace
func (s *Sched) waitQuiescent() bool {
	idle := 0
	start := time.Now()
	for {
		if s.drain() {
			idle = 0
		}
		anyRunning, hasBlocked := false, false
		for _, th := range s.Threads {
			if th.state == stRunning || th.state == stNew {
				anyRunning = true
			}
			if th.state == stBlocked {
				hasBlocked = true
			}
		}
		if !anyRunning && !hasBlocked {
			return true
		}
		if (anyRunning && idle > 40) || (hasBlocked && !anyRunning) {
			states := goroutineStates()
			for _, th := range s.Threads {
				st := states[th.gid].state
				switch th.state {
				case stRunning:
					if !blockedStates[st] {
						th.blockSamples = 0
					} else if th.blockSamples++; th.blockSamples >= 3 {
						// (three consecutive samples: one look can catch a lock that
						// is merely contended for a moment)
						th.blockSamples = 0
						th.state = stBlocked
						th.WasBlocked = true
						if !th.pendingRelease {
							th.pendingRelease = true
							s.BlockedEvents++
						}
					}
				case stBlocked:
					if !blockedStates[st] {
						th.state = stRunning
					}
				}
			}
			anyRunning = false
			for _, th := range s.Threads {
				if th.state == stRunning || th.state == stNew {
					anyRunning = true
				}
			}
			if !anyRunning {
				if !s.drain() {
					return true
				}
				continue
			}
			limit := s.Limit
			if s.free != nil {
				limit *= 4 // one "step" is now everything the thread still has to do
			}
			if time.Since(start) > limit {
				for _, th := range s.Threads {
					if th.state == stRunning {
						s.HungThread = th
						s.HungStack = states[th.gid].stack
						return false
					}
				}
			}
		}
		idle++
		if idle < 30 {
			runtime.Gosched()
		} else {
			time.Sleep(20 * time.Microsecond)
		}
	}
}

// Run executes all threads to completion under the picker. Verdict is "",
// "deadlock" (every unfinished thread blocked in a sync primitive) or
// "livelock" (a thread ran past the limit without reaching a yield point).
//
//go:norace
func (s *Sched) Run() (verdict string) {
	var wg sync.WaitGroup
	cur = s
	for _, th := range s.Threads {
		wg.Add(1)
		go s.threadMain(th, &wg)
	}
	if !s.waitQuiescent() {
		return "livelock"
	}
	var last *Thread
	for {
		var runnable []*Thread
		allDone := true
		for _, th := range s.Threads {
			if th.state == stParked {
				runnable = append(runnable, th)
			}
			if th.state != stDone {
				allDone = false
			}
		}
		if allDone {
			break
		}
		if len(runnable) == 0 {
			// Every unfinished thread looks blocked in a sync primitive. A state
			// seen once can be transient (a contended runtime or library lock on
			// a loaded machine), so look again, several times, before calling it
			// a deadlock: a real one does not go away.
			stillBlocked := true
			for attempt := 0; attempt < 5 && stillBlocked; attempt++ {
				time.Sleep(100 * time.Millisecond)
				if s.drain() {
					stillBlocked = false
					break
				}
				states := goroutineStates()
				for _, th := range s.Threads {
					if th.state == stBlocked && !blockedStates[states[th.gid].state] {
						th.state = stRunning
						stillBlocked = false
					}
				}
			}
			if !stillBlocked {
				if !s.waitQuiescent() {
					return "livelock"
				}
				continue
			}
			states := goroutineStates()
			for _, th := range s.Threads {
				if th.state == stBlocked {
					s.HungThread = th
					s.HungStack = states[th.gid].stack
					break
				}
			}
			return "deadlock"
		}
		var pick *Thread
		if s.MaxSteps > 0 && len(s.Trace) >= s.MaxSteps {
			s.Capped = true
			pick = runnable[0]
			s.free = pick
		} else {
			pick = runnable[s.Pick(runnable, last)]
		}
		s.Trace = append(s.Trace, strconv.Itoa(pick.ID)+"@"+pick.LastSite)
		pick.Steps++
		pick.blockSamples = 0
		pick.state = stRunning
		last = pick
		rawWrite(pick.resume.w, []byte{1})
		if !s.waitQuiescent() {
			return "livelock"
		}
	}
	wg.Wait()
	cur = nil
	return ""
}
