// dbg: developer helper - unmarshal a hex CBE / text CTE document cut at the given offsets.
package main

import (
	"encoding/hex"
	"fmt"
	"os"
	"strconv"

	"github.com/kstenerud/go-concise-encoding/ce"
	"github.com/kstenerud/go-concise-encoding/configuration"
)

func main() {
	doc, err := hex.DecodeString(os.Args[1])
	if err != nil {
		doc = []byte(os.Args[1])
	}
	cfg := configuration.New()
	cuts := []int{len(doc)}
	for _, a := range os.Args[2:] {
		n, _ := strconv.Atoi(a)
		cuts = append(cuts, n)
	}
	for _, k := range cuts {
		v, err := ce.UnmarshalFromCEDocument(doc[:k], nil, cfg)
		fmt.Printf("cut %d: %#v  err=%v\n", k, v, err)
	}
}
