package main

import (
	"encoding/json"
	"fmt"
	"os"
	"path/filepath"
	"sort"
	"strings"
	"time"
)

// PropSpec is the per-property configuration of the parent.
type PropSpec struct {
	Level      string
	Race       bool
	QuickRuns  int
	ThorRuns   int
	QuickCap   time.Duration // wall-clock safety cap for the batch (reported when hit)
	ThorCap    time.Duration
	QuickWD    int // watchdog per library operation, ms
	ThorWD     int
	Rule       string
	Stubs      []string
	Real       []string
	Assumptions []string
	StepKeys   []string // counters that measure logical steps
	Exhaustive string   // which dimensions are enumerated completely per case
	RestartEvery int    // start a fresh worker process after this many runs (0 = never)
}

func (s *PropSpec) Runs(tier string) (int, time.Duration) {
	if tier == "quick" {
		return s.QuickRuns, s.QuickCap
	}
	return s.ThorRuns, s.ThorCap
}

func (s *PropSpec) WatchdogMs(tier string) int {
	if tier == "quick" {
		return s.QuickWD
	}
	return s.ThorWD
}

func (s *PropSpec) ShrinkWatchdogMs() int { return 3000 }

var commonReal = []string{"cbe decoder/encoder/reader/writer", "cte decoder/encoder/ANTLR parser and runtime", "rules validator", "builder and iterator sessions", "ce entry points", "uleb128/compact-float/compact-time dependencies"}

var commonAssumptions = []string{
	"the library has no clock, timer, goroutine or random source: simulated time is a logical step count (reader/writer calls, events, scheduler steps), no simulated seconds are claimed",
	"sampling, not proof: exhaustive dimensions are exhaustive per generated case only",
	"Go map iteration order cannot be seeded; workloads avoid multi-entry Go maps where bytes are compared and error text never enters an oracle",
}

var specs = map[string]*PropSpec{
	"C07": {
		Level: "exploration", QuickRuns: 40000, ThorRuns: 1200000, QuickCap: 150 * time.Second, ThorCap: 25 * time.Minute, QuickWD: 20000, ThorWD: 40000,
		Rule: "one run = one generated CBE/CTE document after 0-4 storage faults (bit/byte flips, zeroed/duplicated ranges, truncation, misdirected or inserted bytes, overwritten length fields, garbage, empty) or a deep-nesting document, fed to every decode/unmarshal entry point that accepts it (from memory and through a SimReader delivery plan; occasionally to the other format's entry points) with a drawn template (nil, typed, unsupported kinds) and configuration, plus four marshal entry points on a drawn Go value (supported or containing chan/func/complex/unsafe.Pointer). Oracle: call returns within the watchdog, no panic escapes, the memory-capped worker stays alive. Non-trivial = the document was faulted or deep, or delivery was through a drawn reader plan, or a marshal call; distinct = hash of (document, entry, template, plan | value type, entry, config)",
		Stubs: []string{"SimReader", "SimWriter (io.Writer and io.Writer+io.StringWriter flavours)", "SimDisk storage-fault model"}, Real: commonReal,
		StepKeys: []string{"reader_calls", "writer_calls"},
		Assumptions: []string{"watchdog is wall-clock: 10 s (quick) / 30 s (thorough) per library call whose normal cost is < 10 ms; worker address space capped at 3 GiB"},
	},
	"C08": {
		Level: "exploration", QuickRuns: 30000, ThorRuns: 1000000, QuickCap: 150 * time.Second, ThorCap: 25 * time.Minute, QuickWD: 20000, ThorWD: 40000,
		Rule: "one run = one measured decode: a document from an adversarial family - a short CBE document built around one length-carrying header (string/typed/bit/uint8 array, resource id, media type length, media data, custom type, big-integer byte count, identifier lengths, chains of continued zero-length chunks) announcing 2^8..2^62 while delivering < 24 bytes; a generated document whose known length fields were overwritten in storage; a container run of 100-2500 levels; a growing benign family - x entry point (decode/unmarshal, reader or from memory) x MaxArraySizeBytes in {64, 1Ki, 64Ki, 1Mi, default} x rules on/off x template. Measured: runtime.MemStats.TotalAlloc around exactly that call in an otherwise idle, address-space-capped worker. Oracle: alloc <= 2*base + 4 MiB + K*len(doc) + 8*MaxArraySizeBytes(when rules are on), base = the same entry point on a minimal document measured in the same process, K = 4096 (CBE) / 16384 (CTE), K validated at worker start by a calibration that requires benign families to sit 10x below the budget (else exit 2); plus the work-step bound reader calls + events <= 8*len+64. Non-trivial = corrupted, adversarial or container-run document; distinct = hash of (document, entry, config, template)",
		Stubs: []string{"SimDisk storage-fault model (length-field aware)", "SimReader"}, Real: commonReal,
		StepKeys:    []string{"work_steps", "measured_decodes"},
		Assumptions: []string{"the CPU-time clause of the property is NOT decided (deterministic simulation does not measure CPU seconds); the work-step bound only catches re-reading and event amplification", "the bound is read in its weaker grouping: fixed multiple of (length + maximum array size)"},
	},
	"C09": {
		Level: "fault_enumeration", QuickRuns: 5000, ThorRuns: 150000, QuickCap: 150 * time.Second, ThorCap: 25 * time.Minute, QuickWD: 20000, ThorWD: 40000,
		Rule: "one run = one valid document (CBE: any top-level object, no trailing padding; CTE: top-level container ending with its closing delimiter), either the real encoder's output for a generated rules-valid event stream or the real marshaler's output for a generated Go value. Crash point = clean EOF after byte k, enumerated for EVERY k in 0<k<len(doc), x {UnmarshalFrom*Document, Unmarshal* through a SimReader that ends at k under a drawn delivery plan} x {untyped template, template of the marshaled value's type}. Oracle per cut: err != nil; partial value is a prefix of the value the complete document yields (shared Prefix relation); for event-stream documents with the untyped template, completeness against the event-nesting model built from recorded encoder offsets (every completely delivered list element / map entry on the path to the cut is present and equal to the full value's). Every evaluation is a fault (non-trivial); distinct = hash of (document, template, cut, entry)",
		Stubs: []string{"SimReader with cut point"}, Real: commonReal,
		StepKeys:   []string{"reader_calls"},
		Exhaustive: "all cut points 0<k<len(doc) of each generated document (documents over 700 bytes are skipped in the quick tier)",
		Assumptions: []string{"rule enforcement stays enabled (Marshal.EnforceRules=true): with rule checks disabled by the caller nothing is meant to notice a structurally incomplete document", "the zero value of a template type counts as 'nothing decoded'; typed arrays may be element-wise prefixes; strings and other leaves are atomic"},
	},
	"C11": {
		Level: "exploration", QuickRuns: 40000, ThorRuns: 1500000, QuickCap: 150 * time.Second, ThorCap: 25 * time.Minute, QuickWD: 20000, ThorWD: 40000,
		Rule: "one run = one array (every array type, string-like kinds with 1-4 byte characters, media, custom text/binary) placed at top level / in a list / as map value / as map key, delivered to a fresh validator under many flush schedules: one chunk whole; every single split point (payload <= 64 bytes); every two-point split (<= 24 bytes); drawn multi-chunk schedules with splits inside elements and characters; a zero-length chunk in every position; then drawn fault schedules (under/over delivery, missing final chunk, chunk ending inside a character, invalid UTF-8 byte, data after the final chunk, wrong chunk header, invalid media type) and the whole-array event forms. Oracle: verdict equals the reference acceptor written from the property statement (per chunk: received bytes == declared bytes; last chunk final; string-like chunk bytes valid UTF-8); on accept the forwarded bytes equal the delivered bytes. Non-trivial = a fault was injected or the data was split over more than one data event; distinct = hash of (array, position, schedule, fault)",
		Stubs: []string{"Fragmenter (producer-side flush schedule)", "recording next receiver"}, Real: []string{"rules.RulesEventReceiver and rules.Context (array/chunk/UTF-8 rules)", "internal/chars"},
		StepKeys:   []string{"data_events"},
		Exhaustive: "single split points (payload <= 64 bytes) and two-point splits (<= 24 bytes) of the one-chunk form; zero-length chunk positions of a drawn chunking",
	},
	"C16": {
		Level: "exploration", QuickRuns: 24000, ThorRuns: 800000, QuickCap: 150 * time.Second, ThorCap: 25 * time.Minute, QuickWD: 20000, ThorWD: 40000,
		Rule: "one run = one long-lived instance (CBE/CTE marshaler, unmarshaler, encoder, decoder incl. universal, or rules validator with Reset) receiving a drawn history of 2-6 (thorough: 2-12) operations: valid values/documents/streams; unsupported-kind values (alone, nested, behind an interface, the same value repeated); corrupted or truncated documents; limit violations under small drawn limits (incl. cumulative size over MaxDocumentSizeBytes); an I/O fault at a drawn point inside the operation; a producer abort after a drawn event followed by reset. Reference model per operation: a FRESH instance with the same configuration and identical simulated reader/writer plans; compared: bytes written (incl. the prefix before a failure), events forwarded, value, err==nil, rejecting event index; a hang of the reused instance is a deadlock/livelock violation. Non-trivial = any operation after the first; distinct = hash of (instance, config, history so far)",
		Stubs: []string{"SimReader/SimWriter with fault plans", "producer abort (event-stream cut)", "recording receiver"}, Real: commonReal,
		StepKeys: []string{"operations", "reader_calls", "writer_calls"},
	},
	"C17": {
		Level: "exploration", Race: true, RestartEvery: 20, QuickRuns: 3000, ThorRuns: 100000, QuickCap: 150 * time.Second, ThorCap: 28 * time.Minute, QuickWD: 20000, ThorWD: 40000,
		Rule: "one run = one seeded schedule of 2-6 simulated caller threads x 1-3 operations each (marshal via ce.Marshal* or a shared iterator.Session, unmarshal via ce.Unmarshal* or a shared builder.Session, decode, validate) on 1-2 drawn value types that no session has seen before (struct/slice/map/pointer/recursive/unsupported kinds), with sharing mode (package-level only / iterator.Session / builder.Session / both; optionally the same input object marshaled by several threads) and scheduler bias (uniform, sticky, switch-at-cache-miss, round-robin, starvation) drawn per run. The tape picks the next thread at every yield point (operation boundary, reader/writer call, event, type-cache hook site). Invariants: no race-detector report with a library/dependency frame during the schedule (worker built with -race; thread hand-off via raw pipe syscalls so the detector sees only the library's own synchronisation); no deadlock/livelock (real blocking detected from goroutine state); each call's bytes/value/events/err==nil equal the same call run alone on fresh instances and sessions after the join. Non-trivial = the schedule has more steps than threads; distinct = distinct hashes of the (thread, site) sequence, i.e. distinct interleavings",
		Stubs: []string{"thread scheduler (sched: raw-pipe hand-off, quiescence by goroutine-state inspection)", "SimReader/SimWriter"}, Real: append([]string{"sync.Map/WaitGroup type-cache protocols in iterator.Session and builder.Session (real blocking)", "Go race detector as invariant monitor"}, commonReal...),
		StepKeys: []string{"scheduler_steps", "operations"},
		Assumptions: []string{"schedules interleave at yield points (seam calls, events, hook sites), not at every memory access; races are still detected at access granularity on each explored schedule", "GOMAXPROCS does not influence the outcome: one simulated thread runs at a time (determinism self-test)"},
	},
	"C23": {
		Level: "exploration", QuickRuns: 60000, ThorRuns: 1500000, QuickCap: 150 * time.Second, ThorCap: 25 * time.Minute, QuickWD: 20000, ThorWD: 40000,
		Rule: "one run = one generated rules-valid event stream (array-heavy) reduced to chunking-independent items; reference = every array delivered as one whole-array event to a fresh CTE encoder (optionally behind the real validator). Variants of the same data: one chunk + one data event; drawn re-chunkings at legal chunk boundaries with each chunk's bytes split at drawn positions (element-aligned in half of the variants, arbitrary - inside elements and multi-byte characters - in the other half), zero-length chunks; one byte per data event. Oracle: output text byte-identical to the reference. By-product for the second sentence: the reference text decodes and the decoded events encode to the same text. Non-trivial = the variant differs from the one-chunk/one-event delivery; distinct = hash of (stream, variant events)",
		Stubs: []string{"Fragmenter (producer-side flush schedule)", "SimWriter"}, Real: []string{"cte encoder (encoder_array, encoder_context, decorators, writer)", "rules validator (when in front)", "cte decoder/parser (by-product)"},
		StepKeys: []string{"data_events"},
	},
	"C29": {
		Level: "fault_enumeration", QuickRuns: 6000, ThorRuns: 120000, QuickCap: 150 * time.Second, ThorCap: 25 * time.Minute, QuickWD: 20000, ThorWD: 40000,
		Rule: "one run = one generated Go value (marshal), document (unmarshal/decode through a reader) or event stream (low-level encoder API) x format x configuration. After a fault-free control, every position of a single fault is enumerated: writer - fail the j-th call for every j the control made (+1 that never fires), as (0,err) and as short write+err, and disk-full at every byte count 0..len(output), for both writer flavours (io.Writer only, io.Writer+io.StringWriter); reader - a non-EOF error at every byte offset 0..len(doc) as (0,err), as (m>0,err) and transient, under three delivery plans; then drawn two-fault sequences. Oracle: a fired fault => non-nil error (encoder event: does not return normally), no escaped panic; no fired fault => same success as the control. Non-trivial = a fault actually fired; distinct = hash of (case, flavour/plan, fault)",
		Stubs: []string{"SimReader with fault plan", "SimWriter with fault plan (two flavours)"}, Real: commonReal,
		StepKeys:   []string{"reader_calls", "writer_calls"},
		Exhaustive: "single write-failure positions (call index and byte count, both writer flavours), single read-failure offsets (three kinds); byte positions are strided above 300-400 bytes in the quick tier only",
	},
	"C28": {
		Level: "exploration", QuickRuns: 2400, ThorRuns: 120000, QuickCap: 150 * time.Second, ThorCap: 25 * time.Minute, QuickWD: 20000, ThorWD: 40000,
		Rule: "one run = one generated document (valid, or corrupted by 1-2 storage faults) x one reader entry point x config/template; evaluated under drawn delivery plans and, for small documents, every single split offset, every single (0,nil) position, data+EOF and 1-byte delivery; reference = from-memory twin on fresh instances. A case is non-trivial if the reader actually produced a short read, a (0,nil) read or data together with EOF; distinct = distinct (document, entry, config, plan) hashes",
		Stubs: []string{"SimReader (io.Reader only)"}, Real: commonReal,
		StepKeys:   []string{"reader_calls"},
		Exhaustive: "single split offsets, single zero-read positions (documents up to 96 bytes quick / 256 thorough)",
	},
}

func writeEvidence(agg *aggregate, batchWall, wall time.Duration, planned, nworkers, nviol int, knownLines []string) {
	os.MkdirAll(evidenceDir(), 0o755)
	faults := map[string]int64{}
	probes := map[string]int64{}
	steps := map[string]int64{}
	other := map[string]int64{}
	for k, v := range agg.ctr {
		switch {
		case strings.HasPrefix(k, "fault:"):
			faults[k[6:]] = v
		case strings.HasPrefix(k, "delivery:"):
			faults["delivery/"+k[9:]] = v
		case strings.HasPrefix(k, "probe:"):
			probes[k[6:]] = v
		default:
			isStep := false
			for _, sk := range spec.StepKeys {
				if sk == k {
					isStep = true
				}
			}
			if isStep {
				steps[k] = v
			} else {
				other[k] = v
			}
		}
	}
	var zero []string
	for _, p := range spec.expectedProbes() {
		if probes[p] == 0 {
			zero = append(zero, p)
		}
	}
	sort.Strings(zero)
	samples := agg.samples
	if len(samples) == 0 {
		samples = []interface{}{"no sample was produced (no run completed)"}
	}
	perHour := func(n int64) int64 {
		if batchWall <= 0 {
			return 0
		}
		return int64(float64(n) / batchWall.Hours())
	}
	cov := map[string]interface{}{
		"evaluations":         agg.evals,
		"distinct_nontrivial": agg.distinct,
		"rule":                spec.Rule,
		"samples":             samples,
		"exhaustive":          false,
		"exhaustive_dimensions_per_case": spec.Exhaustive,
		"simulated_runs":      agg.runs,
		"runs_planned":        planned,
		"runs_per_hour":       perHour(int64(agg.runs)),
		"evaluations_per_hour": perHour(agg.evals),
		"seeds_per_hour":      perHour(int64(agg.runs)),
		"simulated_time":      "not applicable: the library has no clock; logical steps are reported instead",
		"logical_steps":       steps,
		"faults_fired":        faults,
		"probes":              probes,
		"probes_at_zero":      zero,
		"counters":            other,
		"mean_tape_length":    float64(agg.tapeLens) / float64(max1(agg.runs)),
		"worker_processes":    nworkers,
		"worker_restarts":     agg.restarts,
		"components_real":     spec.Real,
		"components_stubbed":  spec.Stubs,
		"known_findings_printed": knownLines,
		"batch_wall_s":        batchWall.Seconds(),
	}
	if agg.runs < planned {
		cov["note"] = fmt.Sprintf("wall-clock cap reached: %d of %d planned runs executed", agg.runs, planned)
	}
	ev := map[string]interface{}{
		"property_id": prop,
		"tier":        tier,
		"seed":        seed,
		"level":       spec.Level,
		"coverage":    cov,
		"assumptions": append(append([]string{}, commonAssumptions...), spec.Assumptions...),
		"wall_s":      wall.Seconds(),
		"violations":  nviol,
	}
	b, _ := json.MarshalIndent(ev, "", " ")
	if err := os.WriteFile(filepath.Join(evidenceDir(), prop+".json"), b, 0o644); err != nil {
		infraFail("cannot write evidence: %v", err)
	}
}

func max1(n int) int {
	if n < 1 {
		return 1
	}
	return n
}

// rare states every thorough run is expected to reach; one stuck at zero is
// printed in the evidence as probes_at_zero: the workload must change
var expectedProbes = map[string][]string{
	"C08": {"allocation_within_10x_of_budget"},
	"C11": {"split_inside_character", "zero_length_chunk", "chunk_boundary_inside_character_fault_rejected"},
	"C16": {"operation_after_a_failed_one"},
	"C17": {"type_cache_miss_about_to_generate", "generation_finished", "same_object_marshaled_by_several_threads"},
}

func (s *PropSpec) expectedProbes() []string { return expectedProbes[prop] }
