// simcheck is the parent process of a check: it owns seeds, distributes runs to
// simworker children, survives their hangs and deaths, minimises failing
// tapes, confirms every violation by a replay in a fresh process, matches the
// result against the committed known-findings file, and writes the evidence.
//
// Exit status: 0 property held on everything explored (known findings are
// printed), 1 at least one VIOLATION line, 2 infrastructure trouble.
package main

import (
	"bufio"
	"encoding/json"
	"fmt"
	"io"
	"os"
	"os/exec"
	"path/filepath"
	"sort"
	"strconv"
	"strings"
	"sync"
	"time"
)

type RunResult struct {
	Run      int                    `json:"i"`
	Class    string                 `json:"class,omitempty"`
	Locator  string                 `json:"loc,omitempty"`
	Detail   string                 `json:"detail,omitempty"`
	Evals    int                    `json:"evals"`
	Distinct int                    `json:"distinct"`
	Sig      uint64                 `json:"sig"`
	Sample   interface{}            `json:"sample,omitempty"`
	Scenario interface{}            `json:"scenario,omitempty"`
	Ctr      map[string]int64       `json:"ctr,omitempty"`
	Tape     []uint64               `json:"tape,omitempty"`
	TapeLen  int                    `json:"tape_len"`
	Overrun  int                    `json:"overrun,omitempty"`
	Hung     bool                   `json:"hung,omitempty"`
	Others   []struct {
		Class   string `json:"class"`
		Locator string `json:"loc"`
		Detail  string `json:"detail"`
	} `json:"others,omitempty"`
}

type Cmd struct {
	Cmd          string   `json:"cmd"`
	Prop         string   `json:"prop"`
	Tier         string   `json:"tier"`
	Seed         uint64   `json:"seed"`
	Start        int      `json:"start"`
	Stride       int      `json:"stride"`
	Count        int      `json:"count"`
	Tape         []uint64 `json:"tape,omitempty"`
	WantTape     bool     `json:"want_tape,omitempty"`
	SampleLT     int      `json:"sample_lt,omitempty"`
	WatchdogMs   int      `json:"watchdog_ms,omitempty"`
	DeadlineUnix int64    `json:"deadline_unix,omitempty"`
	TapeFile     string   `json:"tape_file,omitempty"`
}

var (
	verifDir  = "/verif"
	buildDir  = "/verif/.build"
	prop      string
	tier      string
	seed      uint64
	spec      *PropSpec
	infraFail = func(format string, a ...interface{}) {
		fmt.Fprintf(os.Stderr, "INFRA: "+format+"\n", a...)
		os.Exit(2)
	}
)

// replayDir / evidenceDir: /verif/replays and /verif/evidence unless redirected
// (development: checks run against a scratch copy must not overwrite them).
func replayDir() string {
	if v := os.Getenv("VERIF_REPLAY_DIR"); v != "" {
		return v
	}
	return filepath.Join(verifDir, "replays")
}

func evidenceDir() string {
	if v := os.Getenv("VERIF_EVIDENCE_DIR"); v != "" {
		return v
	}
	return filepath.Join(verifDir, "evidence")
}

func workerPath() string {
	if spec.Race {
		return filepath.Join(buildDir, "simworker-race")
	}
	return filepath.Join(buildDir, "simworker")
}

// ---------------------------------------------------------------------------
// worker process handling

type worker struct {
	cmd    *exec.Cmd
	stdin  io.WriteCloser
	out    *bufio.Reader
	stderr *tailBuf
	phase  string
}

type tailBuf struct {
	mu   sync.Mutex
	head []byte
	buf  []byte
}

func (t *tailBuf) Write(p []byte) (int, error) {
	t.mu.Lock()
	defer t.mu.Unlock()
	q := p
	if room := 1<<16 - len(t.head); room > 0 {
		if room > len(q) {
			room = len(q)
		}
		t.head = append(t.head, q[:room]...)
		q = q[room:]
	}
	t.buf = append(t.buf, q...)
	if len(t.buf) > 1<<17 {
		t.buf = t.buf[len(t.buf)-(1<<16):]
	}
	return len(p), nil
}
func (t *tailBuf) String() string {
	t.mu.Lock()
	defer t.mu.Unlock()
	return string(t.head) + string(t.buf)
}

func startWorker() *worker {
	c := exec.Command(workerPath())
	c.Env = append(os.Environ(), "GOTRACEBACK=all")
	if spec.Race {
		logPrefix := filepath.Join(buildDir, "race", fmt.Sprintf("log-%d", os.Getpid()))
		os.MkdirAll(filepath.Dir(logPrefix), 0o755)
		c.Env = append(c.Env, "GORACE=halt_on_error=0 exitcode=0 history_size=3 log_path="+logPrefix, "VERIF_RACE_LOG="+logPrefix)
	}
	in, err := c.StdinPipe()
	if err != nil {
		infraFail("stdin pipe: %v", err)
	}
	op, err := c.StdoutPipe()
	if err != nil {
		infraFail("stdout pipe: %v", err)
	}
	tb := &tailBuf{}
	c.Stderr = tb
	if err := c.Start(); err != nil {
		infraFail("cannot start worker %s: %v", workerPath(), err)
	}
	return &worker{cmd: c, stdin: in, out: bufio.NewReaderSize(op, 1<<20), stderr: tb}
}

func (w *worker) send(c *Cmd) {
	b, _ := json.Marshal(c)
	b = append(b, '\n')
	w.stdin.Write(b)
}

func (w *worker) kill() {
	w.stdin.Close()
	w.cmd.Process.Kill()
	w.cmd.Wait()
}

// readEvent returns ("B", run), ("R", result), ("E"), or ("X") on EOF.
func (w *worker) readEvent() (kind string, run int, res *RunResult) {
	for {
		line, err := w.out.ReadBytes('\n')
		if len(line) == 0 && err != nil {
			return "X", 0, nil
		}
		s := strings.TrimRight(string(line), "\n")
		switch {
		case strings.HasPrefix(s, "B "):
			n, _ := strconv.Atoi(s[2:])
			return "B", n, nil
		case strings.HasPrefix(s, "R "):
			var r RunResult
			if jerr := json.Unmarshal([]byte(s[2:]), &r); jerr != nil {
				infraFail("bad result line from worker: %v", jerr)
			}
			return "R", r.Run, &r
		case strings.HasPrefix(s, "P "):
			w.phase = s[2:]
		case s == "E":
			return "E", 0, nil
		}
		if err != nil {
			return "X", 0, nil
		}
	}
}

// exitInfo classifies a dead worker: status 2 with INFRA on stderr is ours.
func (w *worker) waitExit() (status int, stderr string) {
	err := w.cmd.Wait()
	status = 0
	if ee, ok := err.(*exec.ExitError); ok {
		status = ee.ExitCode()
	}
	return status, w.stderr.String()
}

// ---------------------------------------------------------------------------
// batch execution

type violation struct {
	Run     int
	Class   string
	Locator string
	Detail  string
	Tape    []uint64
	Scenario interface{}
}

type aggregate struct {
	mu        sync.Mutex
	runs      int
	evals     int64
	distinct  int64
	sigs      map[uint64]bool
	ctr       map[string]int64
	samples   []interface{}
	viols     []violation
	restarts  int
	tapeLens  int64
	raceNoise int
}

func (a *aggregate) add(r *RunResult) {
	a.mu.Lock()
	defer a.mu.Unlock()
	a.runs++
	a.evals += int64(r.Evals)
	if !a.sigs[r.Sig] {
		a.sigs[r.Sig] = true
		a.distinct += int64(r.Distinct)
	}
	for k, v := range r.Ctr {
		a.ctr[k] += v
	}
	a.tapeLens += int64(r.TapeLen)
	if r.Sample != nil && len(a.samples) < 3 {
		a.samples = append(a.samples, r.Sample)
	}
	if r.Class != "" {
		a.viols = append(a.viols, violation{r.Run, r.Class, r.Locator, r.Detail, r.Tape, r.Scenario})
		for _, o := range r.Others {
			a.viols = append(a.viols, violation{r.Run, o.Class, o.Locator, o.Detail, r.Tape, r.Scenario})
		}
	}
}

func processKilled(run int, status int, stderr string) *RunResult {
	class := "process-killed"
	site := ""
	reason := "worker died"
	if i := strings.Index(stderr, "fatal error: "); i >= 0 {
		end := strings.IndexByte(stderr[i:], '\n')
		if end < 0 {
			end = len(stderr) - i
		}
		reason = strings.TrimSpace(stderr[i : i+end])
		site = firstLibFrame(stderr[i:])
	} else if i := strings.Index(stderr, "panic: "); i >= 0 {
		// a panic that killed the process in a goroutine the harness does not own
		end := strings.IndexByte(stderr[i:], '\n')
		reason = strings.TrimSpace(stderr[i : i+end])
		site = firstLibFrame(stderr[i:])
	}
	tail := stderr
	if len(tail) > 2500 {
		tail = tail[:2500]
	}
	return &RunResult{Run: run, Class: class, Locator: fmt.Sprintf("reason=%q site=%s", reason, site), Detail: fmt.Sprintf("exit status %d; stderr head: %s", status, tail)}
}

func firstLibFrame(stack string) string {
	for _, l := range strings.Split(stack, "\n") {
		if strings.HasPrefix(l, "github.com/kstenerud/go-concise-encoding/") {
			fn := strings.TrimPrefix(l, "github.com/kstenerud/go-concise-encoding/")
			if i := strings.LastIndex(fn, "("); i > 0 {
				fn = fn[:i]
			}
			return fn
		}
	}
	return ""
}

func runBatch(total int, nworkers int, deadline time.Time, agg *aggregate) {
	var wg sync.WaitGroup
	for w := 0; w < nworkers; w++ {
		wg.Add(1)
		go func(w int) {
			defer wg.Done()
			next := w
			for next < total && time.Now().Before(deadline) {
				wk := startWorker()
				count := (total - next + nworkers - 1) / nworkers
				limited := false
				if v := os.Getenv("VERIF_RESTART_EVERY"); v != "" { // development only
					spec.RestartEvery, _ = strconv.Atoi(v)
				}
				if spec.RestartEvery > 0 && count > spec.RestartEvery {
					// fresh processes at intervals: process-wide lazy initialisation
					// (parser tables, package-level caches) is then cold again
					count, limited = spec.RestartEvery, true
				}
				wk.send(&Cmd{Cmd: "range", Prop: prop, Tier: tier, Seed: seed, Start: next, Stride: nworkers, Count: count,
					SampleLT: 3, WatchdogMs: spec.WatchdogMs(tier), DeadlineUnix: deadline.Unix()})
				wk.stdin.Close()
				cur := -1
				finished := false
				for !finished {
					kind, run, res := wk.readEvent()
					switch kind {
					case "B":
						cur = run
						wk.phase = "main"
					case "R":
						agg.add(res)
						next = res.Run + nworkers
						cur = -1
					case "E":
						if !limited {
							next = total
						}
						finished = true
					case "X":
						status, stderr := wk.waitExit()
						if status == 2 && strings.Contains(stderr, "INFRA:") {
							infraFail("worker reported: %s", lastLines(stderr, 30))
						}
						if cur >= 0 && wk.phase == "ref" {
							// the benign reference execution killed the process: a C07-class
							// matter, not a verdict for a differential property
							agg.add(&RunResult{Run: cur, Sig: uint64(cur) ^ 0xdead, Ctr: map[string]int64{"reference_unusable_killed": 1}})
							next = cur + nworkers
						} else if cur >= 0 {
							// died inside run cur without reporting
							agg.add(processKilled(cur, status, stderr))
							next = cur + nworkers
						} else if status != 0 {
							infraFail("worker exited with status %d outside a run: %s", status, lastLines(stderr, 30))
						}
						agg.mu.Lock()
						agg.restarts++
						agg.mu.Unlock()
						finished = true
					}
				}
				wk.kill()
			}
		}(w)
	}
	wg.Wait()
}

func lastLines(s string, n int) string {
	l := strings.Split(strings.TrimRight(s, "\n"), "\n")
	if len(l) > n {
		l = l[len(l)-n:]
	}
	return strings.Join(l, "\n")
}

// runTape executes one tape in a fresh worker process and returns its result.
func runTape(tp []uint64, watchdogMs int) *RunResult {
	wk := startWorker()
	defer wk.kill()
	wk.send(&Cmd{Cmd: "tape", Prop: prop, Tier: tier, Tape: tp, WatchdogMs: watchdogMs, WantTape: false})
	wk.stdin.Close()
	began := false
	for {
		kind, _, res := wk.readEvent()
		switch kind {
		case "B":
			began = true
		case "R":
			return res
		case "X", "E":
			status, stderr := wk.waitExit()
			if status == 2 && strings.Contains(stderr, "INFRA:") {
				infraFail("worker reported: %s", lastLines(stderr, 30))
			}
			if began {
				return processKilled(-1, status, stderr)
			}
			infraFail("replay worker exited (status %d) before running: %s", status, lastLines(stderr, 20))
		}
	}
}

// recoverTape re-executes run (seed, run) in a fresh process with crash-safe
// recording of every draw, for runs that killed their process before they
// could report a tape.
func recoverTape(run int) []uint64 {
	os.MkdirAll(buildDir, 0o755)
	path := filepath.Join(buildDir, fmt.Sprintf("tape-%s-%d-%d.txt", prop, os.Getpid(), run))
	defer os.Remove(path)
	wk := startWorker()
	wk.send(&Cmd{Cmd: "range", Prop: prop, Tier: tier, Seed: seed, Start: run, Stride: 1, Count: 1, WatchdogMs: spec.WatchdogMs(tier), TapeFile: path})
	wk.stdin.Close()
	for {
		kind, _, res := wk.readEvent()
		if kind == "R" && len(res.Tape) > 0 {
			wk.kill()
			return res.Tape
		}
		if kind == "X" || kind == "E" {
			break
		}
	}
	wk.kill()
	b, err := os.ReadFile(path)
	if err != nil {
		return nil
	}
	var tp []uint64
	for _, l := range strings.Split(string(b), "\n") {
		if l == "" {
			continue
		}
		n, err := strconv.ParseUint(l, 10, 64)
		if err != nil {
			break
		}
		tp = append(tp, n)
	}
	return tp
}

// ---------------------------------------------------------------------------
// minimisation

func stackClass(class string) bool {
	switch class {
	case "panic-escaped", "livelock", "deadlock", "process-killed", "data-race", "alloc-over-budget":
		return true
	}
	return false
}

type shrinker struct {
	class, locator string
	budget         int
	deadline       time.Time
	wd             int
	tried          int
	cache          map[string]bool
	known          []known
}

func (s *shrinker) same(tp []uint64) bool {
	if s.tried >= s.budget || time.Now().After(s.deadline) {
		return false
	}
	key := fmt.Sprint(tp)
	if v, ok := s.cache[key]; ok {
		return v
	}
	s.tried++
	r := runTape(tp, s.wd)
	ok := false
	for _, f := range failuresOf(r) {
		if f.Class != s.class {
			continue
		}
		if f.Locator == s.locator || (s.class == "data-race" && shareFrame(f.Locator, s.locator)) {
			ok = true
			break
		}
		// A feature-based locator may lose features while the scenario gets
		// simpler, but it may never turn into the locator of a known finding
		// (that would hide a new defect behind an old one).
		if !stackClass(s.class) && locatorSubsumes(s.locator, f.Locator) && matchKnown(s.known, f.Class, f.Locator) == nil {
			s.locator = f.Locator
			ok = true
			break
		}
	}
	s.cache[key] = ok
	return ok
}

type failure struct{ Class, Locator, Detail string }

// shareFrame reports whether two data-race locators (frames=a|b) name a common function.
func shareFrame(a, b string) bool {
	fa := strings.Split(strings.TrimPrefix(a, "frames="), "|")
	fb := strings.Split(strings.TrimPrefix(b, "frames="), "|")
	for _, x := range fa {
		for _, y := range fb {
			if x != "" && x == y {
				return true
			}
		}
	}
	return false
}

func resourceClass(c string) bool {
	return c == "livelock" || c == "process-killed" || c == "alloc-over-budget"
}

func siteOf(locator string) string {
	if i := strings.Index(locator, "site="); i >= 0 {
		return strings.Fields(locator[i+5:] + " ")[0]
	}
	return ""
}

func failuresOf(r *RunResult) []failure {
	if r.Class == "" {
		return nil
	}
	out := []failure{{r.Class, r.Locator, r.Detail}}
	for _, o := range r.Others {
		out = append(out, failure{o.Class, o.Locator, o.Detail})
	}
	return out
}

// locatorSubsumes: cand has the same non-feature part as cur and its feature
// set ("features=a+b", "none" = empty) is a subset of cur's.
func locatorSubsumes(cur, cand string) bool {
	ci, di := strings.Index(cur, "features="), strings.Index(cand, "features=")
	if ci < 0 || di < 0 || cur[:ci] != cand[:di] {
		return false
	}
	set := map[string]bool{}
	for _, f := range strings.Split(cur[ci+9:], "+") {
		set[f] = true
	}
	for _, f := range strings.Split(cand[di+9:], "+") {
		if f != "none" && !set[f] {
			return false
		}
	}
	return true
}

func trimZeros(tp []uint64) []uint64 {
	n := len(tp)
	for n > 0 && tp[n-1] == 0 {
		n--
	}
	return tp[:n]
}

func (s *shrinker) shrink(tp []uint64) []uint64 {
	cur := append([]uint64(nil), tp...)
	// 1. shortest failing prefix (an exhausted tape yields zeros)
	lo, hi := 0, len(cur)
	for lo < hi {
		mid := (lo + hi) / 2
		if s.same(cur[:mid]) {
			hi = mid
		} else {
			lo = mid + 1
		}
	}
	if hi < len(cur) && s.same(cur[:hi]) {
		cur = cur[:hi]
	}
	cur = trimZeros(cur)
	improved := true
	for improved && s.tried < s.budget && time.Now().Before(s.deadline) {
		improved = false
		// 2. delete blocks
		for size := len(cur) / 2; size >= 1; size /= 2 {
			for i := 0; i+size <= len(cur); {
				cand := append(append([]uint64(nil), cur[:i]...), cur[i+size:]...)
				if s.same(cand) {
					cur = cand
					improved = true
				} else {
					i += size
				}
				if s.tried >= s.budget {
					break
				}
			}
		}
		// 3. zero blocks, then single values, then halve
		for size := len(cur) / 2; size >= 1; size /= 2 {
			for i := 0; i+size <= len(cur); i += size {
				allZero := true
				for _, v := range cur[i : i+size] {
					if v != 0 {
						allZero = false
					}
				}
				if allZero {
					continue
				}
				cand := append([]uint64(nil), cur...)
				for k := i; k < i+size; k++ {
					cand[k] = 0
				}
				if s.same(cand) {
					cur = cand
					improved = true
				}
			}
		}
		for i := range cur {
			for cur[i] > 0 {
				cand := append([]uint64(nil), cur...)
				cand[i] = cur[i] / 2
				if cand[i] == cur[i]-1 || !s.same(cand) {
					cand[i] = cur[i] - 1
					if !s.same(cand) {
						break
					}
				}
				cur = cand
				improved = true
			}
		}
		cur = trimZeros(cur)
	}
	return cur
}

// ---------------------------------------------------------------------------
// known findings

type known struct {
	kind, prop, class, locator, desc string
}

func loadKnown() []known {
	f, err := os.Open(filepath.Join(verifDir, "known_findings.txt"))
	if err != nil {
		return nil
	}
	defer f.Close()
	var out []known
	sc := bufio.NewScanner(f)
	for sc.Scan() {
		l := strings.TrimSpace(sc.Text())
		if !strings.HasPrefix(l, "finding:") {
			continue // "fixed:" lines and comments suppress nothing
		}
		body := strings.TrimSpace(strings.TrimPrefix(l, "finding:"))
		desc := ""
		if i := strings.Index(body, " -- "); i >= 0 {
			desc = body[i+4:]
			body = body[:i]
		}
		k := known{kind: "finding", desc: desc}
		// property=<id> class=<class> locator=<rest of line>
		if i := strings.Index(body, " locator="); i >= 0 {
			k.locator = strings.TrimSpace(body[i+9:])
			body = body[:i]
		}
		for _, f := range strings.Fields(body) {
			if strings.HasPrefix(f, "property=") {
				k.prop = f[9:]
			}
			if strings.HasPrefix(f, "class=") {
				k.class = f[6:]
			}
		}
		out = append(out, k)
	}
	return out
}

func matchKnown(ks []known, class, locator string) *known {
	for i := range ks {
		if ks[i].prop == prop && ks[i].class == class && ks[i].locator == locator {
			return &ks[i]
		}
	}
	return nil
}

// ---------------------------------------------------------------------------

type replayFile struct {
	Property  string      `json:"property"`
	Seed      uint64      `json:"seed"`
	Run       int         `json:"run"`
	Tier      string      `json:"tier"`
	Tape      []uint64    `json:"tape"`
	Scenario  interface{} `json:"scenario,omitempty"`
	Violation struct {
		Class   string `json:"class"`
		Locator string `json:"locator"`
		Detail  string `json:"detail"`
	} `json:"violation"`
	Minimised struct {
		FromLen   int `json:"from_len"`
		ToLen     int `json:"to_len"`
		Candidates int `json:"candidates_run"`
	} `json:"minimisation"`
}

func writeReplay(v violation, min []uint64, res *RunResult, tried int) string {
	os.MkdirAll(replayDir(), 0o755)
	var rf replayFile
	rf.Property, rf.Seed, rf.Run, rf.Tier, rf.Tape = prop, seed, v.Run, tier, min
	rf.Scenario = res.Scenario
	rf.Violation.Class, rf.Violation.Locator, rf.Violation.Detail = res.Class, res.Locator, res.Detail
	rf.Minimised.FromLen, rf.Minimised.ToLen, rf.Minimised.Candidates = len(v.Tape), len(min), tried
	h := fnvHash(fmt.Sprint(res.Class, res.Locator))
	name := fmt.Sprintf("%s-%s-%08x.json", prop, res.Class, uint32(h))
	path := filepath.Join(replayDir(), name)
	b, _ := json.MarshalIndent(&rf, "", " ")
	if err := os.WriteFile(path, b, 0o644); err != nil {
		infraFail("cannot write replay file: %v", err)
	}
	return path
}

func fnvHash(s string) uint64 {
	h := uint64(14695981039346656037)
	for i := 0; i < len(s); i++ {
		h ^= uint64(s[i])
		h *= 1099511628211
	}
	return h
}

func doReplay(path string) int {
	b, err := os.ReadFile(path)
	if err != nil {
		infraFail("cannot read replay file: %v", err)
	}
	var rf replayFile
	if err := json.Unmarshal(b, &rf); err != nil {
		infraFail("bad replay file: %v", err)
	}
	if rf.Tier != "" {
		tier = rf.Tier
	}
	r := runTape(rf.Tape, spec.WatchdogMs("thorough"))
	for attempt := 0; r.Class == "" && rf.Violation.Class == "data-race" && attempt < 4; attempt++ {
		// (the race detector can miss a race it has reported before: bounded,
		// randomly evicted access history - see DESIGN.md 3.6)
		r = runTape(rf.Tape, spec.WatchdogMs("thorough"))
	}
	if r.Class == "" {
		fmt.Printf("replay of %s: no violation (property holds on this tape with the current tree)\n", path)
		return 0
	}
	fmt.Printf("replay of %s: class=%s locator=%s\n  %s\n", path, r.Class, r.Locator, r.Detail)
	if k := matchKnown(loadKnown(), r.Class, r.Locator); k != nil {
		fmt.Printf("KNOWN-FINDING: property=%s class=%s locator=%s -- %s\n", prop, r.Class, r.Locator, k.desc)
		return 0
	}
	fmt.Printf("VIOLATION property=%s replay=%s\n", prop, path)
	return 1
}

func main() {
	if len(os.Args) < 3 {
		fmt.Fprintln(os.Stderr, "usage: simcheck <property> <quick|thorough> | simcheck <property> --replay <file>")
		os.Exit(2)
	}
	prop = os.Args[1]
	spec = specs[prop]
	if spec == nil {
		infraFail("unknown property %q", prop)
	}
	if v := os.Getenv("VERIF_DIR"); v != "" {
		verifDir = v
		buildDir = filepath.Join(v, ".build")
	}
	if v := os.Getenv("VERIF_BUILD_DIR"); v != "" {
		buildDir = v
	}
	seed = 20260921
	if v := os.Getenv("VERIF_SEED"); v != "" {
		n, err := strconv.ParseUint(v, 10, 64)
		if err != nil {
			infraFail("VERIF_SEED must be an unsigned integer: %v", err)
		}
		seed = n
	}
	if os.Args[2] == "--replay" {
		if len(os.Args) < 4 {
			infraFail("--replay needs a path")
		}
		tier = "thorough"
		os.Exit(doReplay(os.Args[3]))
	}
	tier = os.Args[2]
	if v := os.Getenv("VERIF_TIER"); v == "quick" || v == "thorough" {
		tier = v
	}
	if tier != "quick" && tier != "thorough" {
		infraFail("tier must be quick or thorough")
	}
	fmt.Printf("simcheck property=%s tier=%s VERIF_SEED=%d\n", prop, tier, seed)
	t0 := time.Now()
	total, budget := spec.Runs(tier)
	if v := os.Getenv("VERIF_RUNS"); v != "" {
		total, _ = strconv.Atoi(v)
	}
	nworkers := 16
	if v := os.Getenv("VERIF_WORKERS"); v != "" {
		nworkers, _ = strconv.Atoi(v)
	}
	if nworkers > total {
		nworkers = total
	}
	// replay files of earlier runs of this property are stale from here on
	if old, _ := filepath.Glob(filepath.Join(replayDir(), prop+"-*.json")); len(old) > 0 {
		for _, f := range old {
			os.Remove(f)
		}
	}
	if spec.Race {
		os.RemoveAll(filepath.Join(buildDir, "race"))
		defer os.RemoveAll(filepath.Join(buildDir, "race"))
	}
	agg := &aggregate{sigs: map[uint64]bool{}, ctr: map[string]int64{}}
	runBatch(total, nworkers, t0.Add(budget), agg)
	batchWall := time.Since(t0)

	// ---- classify violations
	ks := loadKnown()
	sort.Slice(agg.viols, func(i, j int) bool { return agg.viols[i].Run < agg.viols[j].Run })
	groups := map[string][]violation{}
	var order []string
	for _, v := range agg.viols {
		k := v.Class + "|" + v.Locator
		if _, ok := groups[k]; !ok {
			order = append(order, k)
		}
		groups[k] = append(groups[k], v)
	}
	type final struct {
		class, locator, detail, path string
		known                        *known
		count                        int
	}
	finals := map[string]*final{}
	var finalOrder []string
	maxShrinks := 10
	if v := os.Getenv("VERIF_MAX_SHRINKS"); v != "" {
		maxShrinks, _ = strconv.Atoi(v)
	}
	exit := 0
	// unknown groups first: the shrink budget belongs to them
	sort.SliceStable(order, func(i, j int) bool {
		vi, vj := groups[order[i]][0], groups[order[j]][0]
		return matchKnown(ks, vi.Class, vi.Locator) == nil && matchKnown(ks, vj.Class, vj.Locator) != nil
	})
	pick := func(r *RunResult, class, locator string) (failure, bool) {
		for _, f := range failuresOf(r) {
			if f.Class == class && f.Locator == locator {
				return f, true
			}
		}
		// An allocation bomb either exhausts the address-space cap at once
		// (process-killed) or keeps the call busy clearing gigabytes (livelock),
		// depending on how loaded the machine is: the same defect at the same
		// call site. Accept one for the other.
		for _, f := range failuresOf(r) {
			if resourceClass(f.Class) && resourceClass(class) {
				return f, true
			}
		}
		// The race detector remembers a bounded, randomly evicted set of earlier
		// accesses per memory word: the same schedule always races, but WHICH
		// earlier access the report names can differ between two executions.
		if class == "data-race" {
			for _, f := range failuresOf(r) {
				if f.Class == class && shareFrame(f.Locator, locator) {
					return f, true
				}
			}
			for _, f := range failuresOf(r) {
				if f.Class == class {
					return f, true
				}
			}
		}
		return failure{}, false
	}
	shrinks := 0
	for _, k := range order {
		vs := groups[k]
		v := vs[0]
		if len(v.Tape) == 0 {
			v.Tape = recoverTape(v.Run)
		}
		if len(v.Tape) == 0 {
			infraFail("violation in run %d (%s %s) has no recoverable tape", v.Run, v.Class, v.Locator)
		}
		preKnown := matchKnown(ks, v.Class, v.Locator)
		min := v.Tape
		tried := 0
		locator := v.Locator
		if preKnown == nil && shrinks < maxShrinks {
			shrinks++
			wd := spec.WatchdogMs(tier)
			if v.Class == "livelock" || v.Class == "deadlock" {
				wd = spec.ShrinkWatchdogMs()
			}
			s := &shrinker{class: v.Class, locator: v.Locator, budget: 500, deadline: time.Now().Add(150 * time.Second), wd: wd, cache: map[string]bool{}, known: ks}
			if s.same(v.Tape) {
				min = s.shrink(v.Tape)
				locator = s.locator
			} else {
				fmt.Printf("note: run %d (%s %s) did not reproduce from its tape under the shrink settings; replaying unminimised\n", v.Run, v.Class, v.Locator)
			}
			tried = s.tried
		}
		// confirmation in a fresh process with the full watchdog
		res := runTape(min, spec.WatchdogMs("thorough"))
		f, ok := pick(res, v.Class, locator)
		if !ok {
			res = runTape(v.Tape, spec.WatchdogMs("thorough"))
			min, locator = v.Tape, v.Locator
			f, ok = pick(res, v.Class, locator)
			// A race report is never a false positive, but the detector can MISS a
			// race it reported before (bounded, randomly evicted access history):
			// a few more fresh processes before calling the replay a failure.
			for attempt := 0; !ok && v.Class == "data-race" && attempt < 2; attempt++ {
				res = runTape(v.Tape, spec.WatchdogMs("thorough"))
				f, ok = pick(res, v.Class, locator)
			}
			// ... and then other runs of the same group: whether the detector sees
			// a given race also depends on happens-before edges that the library's
			// own atomics create, which vary with what the process did before.
			for i := 1; !ok && v.Class == "data-race" && i < len(vs) && i < 8; i++ {
				if len(vs[i].Tape) == 0 {
					continue
				}
				res = runTape(vs[i].Tape, spec.WatchdogMs("thorough"))
				if f, ok = pick(res, v.Class, locator); ok {
					v, min = vs[i], vs[i].Tape
				}
			}
			if !ok && v.Class == "data-race" {
				// A race report is a true positive, but a replay file that does
				// not show it is not evidence anyone can check: counted, not
				// reported.
				fmt.Printf("note: race report of run %d (%s) did not reproduce in fresh processes (nor did %d other runs reporting it); not counted as a violation\n", v.Run, v.Locator, len(vs)-1)
				agg.ctr["race_reports_not_reproduced"] += int64(len(vs))
				continue
			}
			if !ok {
				if v.Class == "livelock" {
					// A watchdog expiry that a fresh, unloaded process does not
					// reproduce was the machine, not the library (e.g. sixteen
					// workers clearing gigabytes at once). It is not evidence:
					// counted, never reported as a violation.
					fmt.Printf("note: watchdog expiry in run %d (%s) did not reproduce in a fresh process; not counted as a violation\n", v.Run, v.Locator)
					agg.ctr["watchdog_expiries_not_reproduced"] += int64(len(vs))
					continue
				}
				infraFail("determinism failure: run %d reported %s/%s but its tape does not reproduce that in a fresh process (got %q/%q)", v.Run, v.Class, v.Locator, res.Class, res.Locator)
			}
		}
		res.Class, res.Locator, res.Detail = f.Class, f.Locator, f.Detail
		kn := matchKnown(ks, f.Class, f.Locator)
		path := ""
		if kn == nil {
			path = writeReplay(v, min, res, tried)
		}
		key := f.Class + "|" + f.Locator
		if finals[key] == nil {
			finals[key] = &final{class: f.Class, locator: f.Locator, detail: f.Detail, path: path, known: kn}
			finalOrder = append(finalOrder, key)
		}
		finals[key].count += len(vs)
	}
	nviol := 0
	var knownPrinted []string
	for _, k := range finalOrder {
		f := finals[k]
		if f.known != nil {
			line := fmt.Sprintf("KNOWN-FINDING: property=%s class=%s locator=%s -- %s (seen in %d runs)", prop, f.class, f.locator, f.known.desc, f.count)
			fmt.Println(line)
			knownPrinted = append(knownPrinted, line)
			continue
		}
		nviol++
		exit = 1
		fmt.Printf("violation: class=%s locator=%s runs=%d\n  %s\n", f.class, f.locator, f.count, f.detail)
		if f.path == "" {
			f.path = "(unminimised)"
		}
		fmt.Printf("VIOLATION property=%s replay=%s\n", prop, f.path)
	}
	writeEvidence(agg, batchWall, time.Since(t0), total, nworkers, nviol, knownPrinted)
	fmt.Printf("simcheck property=%s tier=%s runs=%d evaluations=%d distinct_nontrivial=%d violations=%d known_findings=%d wall=%.1fs\n",
		prop, tier, agg.runs, agg.evals, agg.distinct, nviol, len(knownPrinted), time.Since(t0).Seconds())
	os.Exit(exit)
}
