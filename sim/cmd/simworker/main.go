// simworker executes simulation runs for one property. It reads JSON commands
// on stdin and writes one "B <run>" line before and one "R <json>" line after
// every run. A run that hangs is classified from goroutine stacks, reported,
// and the process exits (a hung goroutine cannot be killed); the parent
// restarts the worker. Infrastructure trouble exits with status 2.
package main

import (
	"bufio"
	"encoding/json"
	"fmt"
	"hash/fnv"
	"os"
	"runtime"
	"runtime/debug"
	"strconv"
	"strings"
	"syscall"
	"time"

	"verifsim/scen"
	"verifsim/tape"
)

type Cmd struct {
	Cmd        string   `json:"cmd"` // "range" | "tape" | "quit"
	Prop       string   `json:"prop"`
	Tier       string   `json:"tier"`
	Seed       uint64   `json:"seed"`
	Start      int      `json:"start"`
	Stride     int      `json:"stride"`
	Count      int      `json:"count"`
	Tape       []uint64 `json:"tape"`
	WantTape   bool     `json:"want_tape"`
	SampleLT   int      `json:"sample_lt"` // runs with index < SampleLT include a sample
	WatchdogMs int      `json:"watchdog_ms"`
	DeadlineUnix int64  `json:"deadline_unix"`
	TapeFile   string   `json:"tape_file"` // crash-safe recording of every draw (one decimal per line)
}

type RunResult struct {
	Run int `json:"i"`
	scen.Outcome
	Ctr      map[string]int64 `json:"ctr,omitempty"`
	Tape     []uint64         `json:"tape,omitempty"`
	TapeLen  int              `json:"tape_len"`
	TapeHash string           `json:"tape_hash"` // hash over every (label, bound, value) drawn: the determinism witness
	Overrun  int              `json:"overrun,omitempty"`
	Hung     bool             `json:"hung,omitempty"`
}

var out = bufio.NewWriterSize(os.Stdout, 1<<16)

func emit(r *RunResult) {
	b, err := json.Marshal(r)
	if err != nil {
		fmt.Fprintln(os.Stderr, "INFRA: cannot marshal result:", err)
		os.Exit(2)
	}
	out.WriteString("R ")
	out.Write(b)
	out.WriteByte('\n')
	out.Flush()
}

var blockedStates = map[string]bool{
	"semacquire": true, "sync.WaitGroup.Wait": true, "sync.Mutex.Lock": true, "sync.RWMutex.Lock": true,
	"sync.RWMutex.RLock": true, "sync.Cond.Wait": true, "chan receive": true, "chan send": true, "select": true,
	"chan receive (nil chan)": true, "chan send (nil chan)": true, "select (no cases)": true,
}

// goroutineBlock returns the header state and stack text of goroutine gid.
func goroutineBlock(gid int64) (state, stack string) {
	buf := make([]byte, 8<<20)
	n := runtime.Stack(buf, true)
	prefix := "goroutine " + strconv.FormatInt(gid, 10) + " ["
	for _, blk := range strings.Split(string(buf[:n]), "\n\n") {
		if strings.HasPrefix(blk, prefix) {
			line := blk
			if i := strings.IndexByte(blk, '\n'); i >= 0 {
				line = blk[:i]
			}
			st := line[len(prefix):]
			if i := strings.IndexAny(st, ",]"); i >= 0 {
				st = st[:i]
			}
			return st, blk
		}
	}
	return "gone", ""
}

func runOne(c *Cmd, run int, t *tape.Tape, limit time.Duration) (res *RunResult, hung bool) {
	sc := scen.Registry[c.Prop]
	env := scen.NewEnv(t, c.Tier)
	env.WantSample = run < c.SampleLT || c.Cmd == "tape"
	env.PhaseFn = func(name string) {
		out.WriteString("P " + name + "\n")
		out.Flush()
	}
	if c.TapeFile != "" {
		f, err := os.Create(c.TapeFile)
		if err != nil {
			fmt.Fprintln(os.Stderr, "INFRA: cannot create tape file:", err)
			os.Exit(2)
		}
		bw := bufio.NewWriter(f)
		t.Sink = func(v uint64) { bw.WriteString(strconv.FormatUint(v, 10)); bw.WriteByte('\n') }
		env.BeforeOp = func() { bw.Flush() }
		defer func() { bw.Flush(); f.Close() }()
	}
	done := make(chan scen.Outcome, 1)
	gidCh := make(chan int64, 1)
	go func() {
		gidCh <- scen.GID()
		var o scen.Outcome
		defer func() {
			if r := recover(); r != nil {
				// a panic in harness code (library panics are captured by Env.Op)
				buf := make([]byte, 1<<16)
				n := runtime.Stack(buf, false)
				fmt.Fprintf(os.Stderr, "INFRA: harness panic in run %d: %v\n%s\n", run, r, buf[:n])
				os.Exit(2)
			}
		}()
		o = sc(env)
		done <- o
	}()
	gid := <-gidCh
	tick := time.NewTicker(25 * time.Millisecond)
	defer tick.Stop()
	started := time.Now()
	for {
		select {
		case o := <-done:
			res = &RunResult{Run: run, Outcome: o, Ctr: env.Ctr, TapeLen: len(t.Rec), Overrun: t.Overrun, TapeHash: tapeHash(t)}
			if c.WantTape || o.Class != "" {
				res.Tape = t.Values()
			}
			return res, false
		case <-tick.C:
			op, el := env.CurrentOp()
			if op != "" && el > limit {
				st1, stack := goroutineBlock(gid)
				time.Sleep(200 * time.Millisecond)
				op2, _ := env.CurrentOp()
				st2, _ := goroutineBlock(gid)
				if op2 != op {
					// it moved on between samples: extremely slow, not hung
					if time.Since(started) > 20*limit {
						fmt.Fprintf(os.Stderr, "INFRA: run %d exceeds 20x the watchdog without a stuck operation\n", run)
						os.Exit(2)
					}
					continue
				}
				class := "livelock"
				if blockedStates[st1] && blockedStates[st2] {
					class = "deadlock"
				}
				site := scen.FirstLibFrame(stack, false)
				o := scen.Outcome{Evals: env.Evals(), Distinct: env.Distinct()}
				ctr := map[string]int64{}
				for k, v := range env.Ctr {
					ctr[k] = v
				}
				if strings.HasPrefix(op, "ref:") {
					ctr["reference_unusable_hang"]++
				} else {
					o.Class = class
					o.Locator = fmt.Sprintf("entry=%s site=%s", op, site)
					o.Detail = fmt.Sprintf("operation %s did not return within %v; goroutine state %q/%q", op, limit, st1, st2)
					o.Scenario = map[string]interface{}{"stack_top": firstLines(stack, 14)}
				}
				res = &RunResult{Run: run, Outcome: o, Ctr: ctr, TapeLen: len(t.Rec), Hung: true, Tape: t.Values()}
				return res, true
			}
			if time.Since(started) > 60*limit {
				fmt.Fprintf(os.Stderr, "INFRA: run %d exceeds 60x the watchdog (op=%q)\n", run, op)
				os.Exit(2)
			}
		}
	}
}

func tapeHash(t *tape.Tape) string {
	h := fnv.New64a()
	for _, r := range t.Rec {
		fmt.Fprintf(h, "%s/%d/%d;", r.L, r.N, r.V)
	}
	return fmt.Sprintf("%016x", h.Sum64())
}

func firstLines(s string, n int) []string {
	l := strings.Split(s, "\n")
	if len(l) > n {
		l = l[:n]
	}
	return l
}

func main() {
	if !raceEnabled && os.Getenv("VERIF_NO_RLIMIT") == "" {
		lim := uint64(3 << 30) // generous for the runtime + parser tables (< 1 GiB), small enough that an allocation bomb fails at once
		_ = syscall.Setrlimit(syscall.RLIMIT_AS, &syscall.Rlimit{Cur: lim, Max: lim})
	}
	// The other host resource a single call can exhaust: goroutine stack. The
	// runtime's own limit is 1 GB, which unbounded recursion reaches only after
	// minutes and megabytes of input; 64 MB is far beyond what any bounded
	// recursion of the library needs and lets a few hundred KB of nesting show
	// whether recursion is bounded at all.
	debug.SetMaxStack(64 << 20)
	in := bufio.NewReaderSize(os.Stdin, 1<<20)
	for {
		line, err := in.ReadBytes('\n')
		if len(line) == 0 && err != nil {
			return
		}
		var c Cmd
		if jerr := json.Unmarshal(line, &c); jerr != nil {
			fmt.Fprintln(os.Stderr, "INFRA: bad command:", jerr)
			os.Exit(2)
		}
		if c.Cmd == "quit" {
			return
		}
		if scen.Registry[c.Prop] == nil {
			fmt.Fprintln(os.Stderr, "INFRA: unknown property", c.Prop)
			os.Exit(2)
		}
		limit := time.Duration(c.WatchdogMs) * time.Millisecond
		if limit == 0 {
			limit = 20 * time.Second
		}
		switch c.Cmd {
		case "tape":
			fmt.Fprintf(out, "B %d\n", -1)
			out.Flush()
			res, hung := runOne(&c, -1, tape.Replay(c.Tape), limit)
			emit(res)
			if hung || res.MustExit {
				os.Exit(0)
			}
		case "range":
			for k := 0; k < c.Count; k++ {
				if c.DeadlineUnix != 0 && time.Now().Unix() >= c.DeadlineUnix {
					break
				}
				run := c.Start + k*c.Stride
				fmt.Fprintf(out, "B %d\n", run)
				out.Flush()
				res, hung := runOne(&c, run, tape.New(c.Seed, uint64(run)), limit)
				emit(res)
				if hung || res.MustExit {
					os.Exit(0)
				}
			}
		}
		fmt.Fprintln(out, "E")
		out.Flush()
		if err != nil {
			return
		}
	}
}
