package gen

import (
	"fmt"

	"github.com/kstenerud/go-concise-encoding/cbe"
	"github.com/kstenerud/go-concise-encoding/ce/events"
	"github.com/kstenerud/go-concise-encoding/configuration"
	"github.com/kstenerud/go-concise-encoding/cte"
	"github.com/kstenerud/go-concise-encoding/rules"

	"verifsim/rec"
	"verifsim/simio"
	"verifsim/tape"
)

type Format int

const (
	CBE Format = iota
	CTE
)

func (f Format) String() string {
	if f == CBE {
		return "cbe"
	}
	return "cte"
}

// Doc is a generated document together with what the generator knows about it.
type Doc struct {
	Format Format
	Events []rec.Ev
	Bytes  []byte
	// Off[i] is the number of output bytes the real encoder had written after
	// event i was delivered to it.
	Off []int
}

// Try runs f and converts an escaping panic into an error.
func Try(f func()) (err error) {
	defer func() {
		if r := recover(); r != nil {
			if e, ok := r.(error); ok {
				err = e
			} else {
				err = fmt.Errorf("%v", r)
			}
		}
	}()
	f()
	return nil
}

// Feed sends events to a receiver, returning how many were delivered before a
// panic (the receiver's documented way of rejecting), and the panic as error.
func Feed(evs []rec.Ev, r events.DataEventReceiver, after func(i int)) (delivered int, err error) {
	err = Try(func() {
		for i, e := range evs {
			e.Send(r)
			delivered = i + 1
			if after != nil {
				after(i)
			}
		}
	})
	return
}

// RulesValid reports whether the real validator accepts the stream under cfg.
func RulesValid(evs []rec.Ev, cfg *configuration.Configuration) bool {
	r := rules.NewRules(nil, cfg)
	_, err := Feed(evs, r, nil)
	return err == nil
}

// Encode runs the stream through the real encoder of the given format.
func Encode(evs []rec.Ev, f Format, cfg *configuration.Configuration) (*Doc, error) {
	w := simio.NewWriter(simio.WriterPlan{})
	d := &Doc{Format: f, Events: evs, Off: make([]int, len(evs))}
	var r interface {
		events.DataEventReceiver
	}
	if f == CBE {
		e := cbe.NewEncoder(cfg)
		e.PrepareToEncode(w)
		r = e
	} else {
		e := cte.NewEncoder(cfg)
		e.PrepareToEncode(w)
		r = e
	}
	_, err := Feed(evs, r, func(i int) { d.Off[i] = len(w.Buf) })
	if err != nil {
		return nil, err
	}
	d.Bytes = w.Buf
	return d, nil
}

// DrawDoc draws a rules-valid stream and encodes it. It retries a few times
// (each retry consumes more tape) and reports how many candidates were
// rejected by the real validator/encoder: those are generator misses, never
// verdicts.
func DrawDoc(t *tape.Tape, f Format, o Opts, cfg *configuration.Configuration) (d *Doc, rejected int) {
	if f == CBE {
		// the CBE encoder cannot represent comments or custom text
		o.Comments = false
	} else {
		o.ASCIIMedia = true
	}
	for try := 0; try < 4; try++ {
		evs := Stream(t, o)
		if f == CBE {
			evs = stripForCBE(evs)
		}
		if !RulesValid(evs, cfg) {
			rejected++
			continue
		}
		doc, err := Encode(evs, f, cfg)
		if err != nil {
			rejected++
			continue
		}
		return doc, rejected
	}
	// fall back to a trivial document
	evs := []rec.Ev{{K: rec.KBeginDocument}, {K: rec.KVersion}, {K: rec.KList}, {K: rec.KPositiveInt, U: 1}, {K: rec.KEndContainer}, {K: rec.KEndDocument}}
	doc, err := Encode(evs, f, cfg)
	if err != nil {
		panic("gen: cannot encode trivial document: " + err.Error())
	}
	return doc, rejected
}

func stripForCBE(evs []rec.Ev) []rec.Ev {
	out := evs[:0:0]
	for i := 0; i < len(evs); i++ {
		e := evs[i]
		switch e.K {
		case rec.KCustomText:
			e.K = rec.KCustomBinary
		case rec.KCustomBegin:
			e.AT = events.ArrayTypeCustomBinary
		}
		out = append(out, e)
	}
	return out
}

// Item is one element of a stream in chunking-independent form: either a
// plain event or a whole array with its payload.
type Item struct {
	Ev  rec.Ev
	Arr *Array
}

// SplitArrays converts a stream into chunking-independent items.
func SplitArrays(evs []rec.Ev) []Item {
	var out []Item
	for i := 0; i < len(evs); i++ {
		e := evs[i]
		switch e.K {
		case rec.KArray, rec.KStringlikeArray:
			out = append(out, Item{Arr: &Array{Kind: rec.KArrayBegin, AT: e.AT, Payload: e.S, Elems: elemCount(e.AT, e.U, e.S, e.K == rec.KStringlikeArray)}})
		case rec.KMedia:
			out = append(out, Item{Arr: &Array{Kind: rec.KMediaBegin, Media: e.MT, Payload: e.S, Elems: uint64(len(e.S))}})
		case rec.KCustomBinary:
			out = append(out, Item{Arr: &Array{Kind: rec.KCustomBegin, AT: events.ArrayTypeCustomBinary, Custom: e.U, Payload: e.S, Elems: uint64(len(e.S))}})
		case rec.KCustomText:
			out = append(out, Item{Arr: &Array{Kind: rec.KCustomBegin, AT: events.ArrayTypeCustomText, Custom: e.U, Payload: e.S, Elems: uint64(len(e.S))}})
		case rec.KArrayBegin, rec.KMediaBegin, rec.KCustomBegin:
			a := &Array{Kind: e.K, AT: e.AT, Custom: e.U, Media: e.MT}
			j := i + 1
			done := false
			for j < len(evs) && !done {
				switch evs[j].K {
				case rec.KArrayChunk:
					a.Elems += evs[j].U
					final := !evs[j].B
					j++
					for j < len(evs) && evs[j].K == rec.KArrayData {
						a.Payload = append(a.Payload, evs[j].S...)
						j++
					}
					if final {
						done = true
					}
				default:
					done = true
				}
			}
			if a.Payload == nil {
				a.Payload = []byte{}
			}
			out = append(out, Item{Arr: a})
			i = j - 1
		default:
			out = append(out, Item{Ev: e})
		}
	}
	return out
}

func elemCount(at events.ArrayType, n uint64, payload []byte, stringlike bool) uint64 {
	if stringlike {
		return uint64(len(payload))
	}
	return n
}
