package gen

import (
	"fmt"
	"reflect"

	"verifsim/tape"
)

// DrawWrapper draws a struct type BUILT AROUND the type of another value:
// fields that need generating before it, a container of the inner type (slice,
// pointer, map, array or the type itself), fields that need generating after
// it. Two threads (or two operations of one history) then need related types:
// one the inner type, one the type that contains it - the situation in which a
// type cache can hand one caller's half-made entry to the other. The container
// may be left nil/empty: marshaling then never touches the inner type's
// iterator, so only the GENERATION outcome decides between success and failure.
func DrawWrapper(t *tape.Tape, inner func() Val) Val {
	iv := inner()
	it := reflect.TypeOf(iv.V)
	if it == nil {
		it = reflect.TypeOf((*interface{})(nil)).Elem()
	}
	kind := t.Intn("wrap-kind", 5)
	empty := t.Bool("wrap-empty")
	var ct reflect.Type
	var cdesc string
	switch kind {
	case 0:
		ct, cdesc = reflect.SliceOf(it), "[]"+iv.Desc
	case 1:
		ct, cdesc = reflect.PtrTo(it), "*"+iv.Desc
	case 2:
		ct, cdesc = reflect.MapOf(reflect.TypeOf(""), it), "map[string]"+iv.Desc
	case 3:
		ct, cdesc = reflect.SliceOf(reflect.PtrTo(it)), "[]*"+iv.Desc
	default:
		ct, cdesc = it, iv.Desc
		empty = false
	}
	fields := []reflect.StructField{
		{Name: "Before", Type: reflect.TypeOf(Leaf{})},
		{Name: "InnerPart", Type: ct},
		{Name: "After", Type: reflect.TypeOf(Rec3{})},
		{Name: "LastWord", Type: reflect.TypeOf([]Leaf{})},
	}
	wt := reflect.StructOf(fields)
	desc := fmt.Sprintf("struct{Before Leaf;InnerPart %s;After Rec3;LastWord []Leaf}", cdesc)
	mk := func() interface{} {
		v := reflect.New(wt).Elem()
		v.Field(0).Set(reflect.ValueOf(Leaf{X: 1, Y: "b"}))
		if !empty && iv.V != nil {
			e := reflect.ValueOf(inner().V) // a copy of its own
			switch kind {
			case 0:
				s := reflect.MakeSlice(ct, 1, 1)
				s.Index(0).Set(e)
				v.Field(1).Set(s)
			case 1:
				p := reflect.New(it)
				p.Elem().Set(e)
				v.Field(1).Set(p)
			case 2:
				m := reflect.MakeMap(ct)
				m.SetMapIndex(reflect.ValueOf("k"), e)
				v.Field(1).Set(m)
			case 3:
				p := reflect.New(it)
				p.Elem().Set(e)
				s := reflect.MakeSlice(ct, 1, 1)
				s.Index(0).Set(p)
				v.Field(1).Set(s)
			default:
				v.Field(1).Set(e)
			}
		}
		v.Field(2).Set(reflect.ValueOf(Rec3{V: 2.5, ExtraInfo: "x"}))
		return v.Interface()
	}
	return Val{V: mk(), Desc: desc, Supported: iv.Supported, New: func() interface{} { return reflect.New(wt).Elem().Interface() }}
}

var declaredBad = []reflect.Type{reflect.TypeOf(BadChan{}), reflect.TypeOf(BadFunc{}), reflect.TypeOf(BadNested{}), reflect.TypeOf(BadRec{}), reflect.TypeOf(BadRecList{})}

// DeclaredUnsupported draws one of the declared struct types that contain a
// kind the library cannot handle (some of them behind supported fields, some
// recursive): its generation FAILS half way.
func DeclaredUnsupported(t *tape.Tape, o ValOpts) TypeSpec {
	ty := declaredBad[t.Intn("bad-declared", len(declaredBad))]
	return TypeSpec{T: ty, Desc: ty.String(), Supported: false, o: o}
}
