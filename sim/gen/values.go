package gen

import (
	"fmt"
	"math/big"
	"net/url"
	"reflect"
	"time"
	"unsafe"

	"github.com/cockroachdb/apd/v2"
	compact_time "github.com/kstenerud/go-compact-time"
	"github.com/kstenerud/go-concise-encoding/types"

	"verifsim/tape"
)

// Val is a generated Go value for the marshal direction.
type Val struct {
	V         interface{}
	Desc      string       // readable description of the type
	Supported bool         // false if the value contains a kind the library cannot marshal
	New       func() interface{} // a zero template of the same type
}

// Declared recursive types (reflect.StructOf cannot build self-referential types).
type Leaf struct {
	X int
	Y string
}
type Rec1 struct {
	A    int
	Next *Rec1
	L    []Leaf
	M    map[string]*Rec1
}
type Rec2 struct {
	Name  string
	Kids  []*Rec2
	Other *Rec3
}
type Rec3 struct {
	V         float64
	Back      *Rec2
	Leaf      Leaf
	ExtraInfo string
}
type Rec4 struct {
	I    interface{}
	Self []Rec4
}

// Chain embeds a pointer to its own type (template analysis that looks
// through embedded structs must not follow it forever).
type Chain struct {
	*Chain
	Value int
}

// SelfSlice is a slice of itself; SelfPtrSlice a slice of pointers to itself.
type SelfSlice []SelfSlice
type SelfPtrSlice []*SelfPtrSlice

// Types with kinds the library does not support.
type BadChan struct {
	A int
	C chan int
}
type BadFunc struct {
	F func()
	S string
}
type BadNested struct {
	Ok  Leaf
	Bad *BadChan
}
type BadComplex struct {
	Z complex128
}

type ValOpts struct {
	MaxDepth    int
	Unsupported bool // allow unsupported kinds
	Recursive   bool // allow the declared recursive types
	Specials    bool // big numbers, times, urls, media/node/edge
	// Shared: pointers, and interfaces holding pointers or maps, may refer to
	// data that already exists in the value - shared substructures and cycles.
	// Only meaningful with Iterator.RecursionSupport on (without it the library
	// documents that cyclic data is not supported).
	Shared bool
	// NoCycles restricts Shared to completed data (a DAG). For scenarios where
	// every write of the megabytes a cyclic value produces before the depth
	// limit stops the walk would be a scheduler step.
	NoCycles bool
}

func DrawValOpts(t *tape.Tape) ValOpts {
	return ValOpts{MaxDepth: 1 + t.Intn("vo-depth", 4), Recursive: t.Bool("vo-rec"), Specials: t.Bool("vo-special"), Shared: t.Chance("vo-shared", 1, 3)}
}

type vgen struct {
	t      *tape.Tape
	o      ValOpts
	ok     bool
	refs   []reflect.Value // pointers and maps created so far (candidates for sharing and cycles)
	shared int
	// open holds the pointers and maps still being filled (the ancestors of
	// the position being filled). A value gets EITHER exactly one reference to
	// an ancestor (one cycle) OR any number of references to completed data (a
	// DAG): mixing them, or two cycles, makes the unrolled value - what a
	// marshaler without recursion support walks until the depth limit stops
	// it - exponentially large, which says nothing about the library.
	open   map[uintptr]bool
	cyclic bool
	dag    bool
}

// mayShare reports whether the position being filled may refer to r, and
// records the kind of sharing the value has from now on.
func (g *vgen) mayShare(r reflect.Value) bool {
	if g.cyclic {
		return false
	}
	if g.open[r.Pointer()] {
		if g.dag || g.o.NoCycles {
			return false
		}
		g.cyclic = true
		return true
	}
	g.dag = true
	return true
}

func (g *vgen) enter(r reflect.Value) {
	if g.open == nil {
		g.open = map[uintptr]bool{}
	}
	g.open[r.Pointer()] = true
}

func (g *vgen) leave(r reflect.Value) { delete(g.open, r.Pointer()) }

// DrawValue draws a type and a value of it.
func DrawValue(t *tape.Tape, o ValOpts) Val {
	g := &vgen{t: t, o: o, ok: true}
	typ, desc := g.typ(0)
	v := reflect.New(typ).Elem()
	g.fill(v, 0)
	return Val{V: v.Interface(), Desc: desc, Supported: g.ok, New: func() interface{} { return reflect.New(typ).Elem().Interface() }}
}

// TypeSpec is a drawn type; NewValue fills fresh values of it (the natural use
// of a reused unmarshaler: the same template type, different documents).
type TypeSpec struct {
	T         reflect.Type
	Desc      string
	Supported bool
	o         ValOpts
}

func DrawType(t *tape.Tape, o ValOpts) TypeSpec {
	g := &vgen{t: t, o: o, ok: true}
	typ, desc := g.typ(0)
	return TypeSpec{T: typ, Desc: desc, Supported: g.ok, o: o}
}

func (ts TypeSpec) NewValue(t *tape.Tape) Val {
	g := &vgen{t: t, o: ts.o, ok: ts.Supported}
	v := reflect.New(ts.T).Elem()
	g.fill(v, 0)
	typ := ts.T
	return Val{V: v.Interface(), Desc: ts.Desc, Supported: g.ok, New: func() interface{} { return reflect.New(typ).Elem().Interface() }}
}

// PointerTo wraps a value in a pointer to a fresh copy of it.
func PointerTo(v interface{}) interface{} {
	rv := reflect.ValueOf(v)
	if !rv.IsValid() {
		return v
	}
	p := reflect.New(rv.Type())
	p.Elem().Set(rv)
	return p.Interface()
}

// Recursive types with an unsupported field declared after the self reference:
// generating their iterator/builder fails half way, after the self reference
// has already been resolved through the placeholder.
type BadRec struct {
	Next *BadRec
	C    chan int
}
type BadRecList struct {
	Kids []BadRecList
	F    func()
}

var scalarTypes = []reflect.Type{
	reflect.TypeOf(int(0)), reflect.TypeOf(""), reflect.TypeOf(false), reflect.TypeOf(int8(0)), reflect.TypeOf(int16(0)), reflect.TypeOf(int32(0)), reflect.TypeOf(int64(0)),
	reflect.TypeOf(uint(0)), reflect.TypeOf(uint8(0)), reflect.TypeOf(uint16(0)), reflect.TypeOf(uint32(0)), reflect.TypeOf(uint64(0)),
	reflect.TypeOf(float32(0)), reflect.TypeOf(float64(0)),
}

var specialTypes = []reflect.Type{
	reflect.TypeOf((*big.Int)(nil)), reflect.TypeOf(time.Time{}), reflect.TypeOf((*url.URL)(nil)), reflect.TypeOf((*big.Float)(nil)),
	reflect.TypeOf((*apd.Decimal)(nil)), reflect.TypeOf(compact_time.Time{}), reflect.TypeOf(types.UID{}), reflect.TypeOf(types.Media{}),
	reflect.TypeOf(types.Node{}), reflect.TypeOf(types.Edge{}), reflect.TypeOf([]byte{}), reflect.TypeOf(big.Int{}),
}

var recursiveTypes = []reflect.Type{reflect.TypeOf(Rec1{}), reflect.TypeOf(&Rec2{}), reflect.TypeOf(Rec4{}), reflect.TypeOf(&Rec1{}), reflect.TypeOf(Rec3{})}

var unsupportedTypes = []reflect.Type{
	reflect.TypeOf((chan int)(nil)), reflect.TypeOf((func())(nil)), reflect.TypeOf(complex128(0)), reflect.TypeOf(unsafe.Pointer(nil)),
	reflect.TypeOf(BadChan{}), reflect.TypeOf(&BadFunc{}), reflect.TypeOf(BadNested{}), reflect.TypeOf([]BadComplex{}), reflect.TypeOf(complex64(0)),
	reflect.TypeOf(map[string]chan int{}), reflect.TypeOf(uintptr(0)),
	reflect.TypeOf(BadRec{}), reflect.TypeOf(&BadRecList{}), reflect.TypeOf([]BadRec{}),
}

func (g *vgen) typ(depth int) (reflect.Type, string) {
	t := g.t
	nest := depth < g.o.MaxDepth
	k := t.Intn("ty-kind", 12)
	switch {
	case k <= 1 || (!nest && k >= 4 && k <= 8):
		ty := scalarTypes[t.Intn("ty-scalar", len(scalarTypes))]
		return ty, ty.String()
	case k == 2:
		return reflect.TypeOf((*interface{})(nil)).Elem(), "interface{}"
	case k == 3:
		if g.o.Specials {
			ty := specialTypes[t.Intn("ty-special", len(specialTypes))]
			return ty, ty.String()
		}
		return scalarTypes[1], "string"
	case k == 4:
		e, d := g.typ(depth + 1)
		return reflect.SliceOf(e), "[]" + d
	case k == 5:
		n := t.Intn("ty-nfields", 4)
		fields := make([]reflect.StructField, 0, n)
		desc := "struct{"
		for i := 0; i < n; i++ {
			ft, fd := g.typ(depth + 1)
			// every other field has a multi-word name: its marshaled key
			// (part1_name / part1Name) differs from both the Go name and its
			// all-lower-case form, which is what exercises key normalisation
			name := fmt.Sprintf("F%d", i)
			if i%2 == 1 {
				name = fmt.Sprintf("Part%dName", i)
			}
			fields = append(fields, reflect.StructField{Name: name, Type: ft})
			desc += fmt.Sprintf("%s %s;", name, fd)
		}
		return reflect.StructOf(fields), desc + "}"
	case k == 6:
		e, d := g.typ(depth + 1)
		return reflect.PtrTo(e), "*" + d
	case k == 7:
		e, d := g.typ(depth + 1)
		kt := []reflect.Type{scalarTypes[1], scalarTypes[0], scalarTypes[9]}[t.Intn("ty-mapkey", 3)]
		return reflect.MapOf(kt, e), "map[" + kt.String() + "]" + d
	case k == 8:
		e, d := g.typ(depth + 1)
		n := t.Intn("ty-arrlen", 4)
		return reflect.ArrayOf(n, e), fmt.Sprintf("[%d]%s", n, d)
	case k == 9:
		if g.o.Recursive {
			ty := recursiveTypes[t.Intn("ty-rec", len(recursiveTypes))]
			return ty, ty.String()
		}
		return scalarTypes[0], "int"
	case k == 10:
		if g.o.Unsupported {
			ty := unsupportedTypes[t.Intn("ty-bad", len(unsupportedTypes))]
			g.ok = false
			return ty, ty.String()
		}
		return scalarTypes[13], "float64"
	}
	ty := scalarTypes[t.Intn("ty-scalar", len(scalarTypes))]
	return ty, ty.String()
}

func (g *vgen) str() string {
	n := g.t.Small("v-strlen", 10)
	s := ""
	for i := 0; i < n; i++ {
		s += textPool[g.t.Intn("v-ch", len(textPool))]
	}
	return s
}

func (g *vgen) fill(v reflect.Value, depth int) {
	t := g.t
	switch v.Type() {
	case reflect.TypeOf((*big.Int)(nil)):
		if t.Chance("v-nilptr", 1, 6) {
			return
		}
		b := new(big.Int).SetBytes(t.Bytes("v-bigint", 1+t.Intn("v-bigint-len", 14)))
		if t.Bool("v-neg") {
			b.Neg(b)
		}
		v.Set(reflect.ValueOf(b))
		return
	case reflect.TypeOf(big.Int{}):
		b := new(big.Int).SetBytes(t.Bytes("v-bigint", 1+t.Intn("v-bigint-len", 14)))
		if t.Bool("v-neg") {
			b.Neg(b)
		}
		v.Set(reflect.ValueOf(*b))
		return
	case reflect.TypeOf((*big.Float)(nil)):
		if t.Chance("v-nilptr", 1, 6) {
			return
		}
		f := new(big.Float).SetInt64(int64(t.Draw("v-bf", 1<<40)))
		f.SetMantExp(f, t.Intn("v-bf-exp", 60)-30)
		if g.o.Specials && t.Chance("v-bf-huge-exp", 1, 6) {
			// a value a dozen bytes can hold whose decimal form has millions of digits
			f.SetMantExp(f, []int{3000000, -3000000, 200000000, -200000000}[t.Intn("v-bf-huge", 4)])
		}
		v.Set(reflect.ValueOf(f))
		return
	case reflect.TypeOf((*apd.Decimal)(nil)):
		if t.Chance("v-nilptr", 1, 6) {
			return
		}
		d := apd.New(int64(t.Draw("v-apd", 1<<40)), int32(t.Intn("v-apd-exp", 100))-50)
		if g.o.Specials && t.Chance("v-apd-huge-exp", 1, 6) {
			d.Exponent = []int32{3000000, -3000000, 2147483000, -2147483000}[t.Intn("v-apd-huge", 4)]
		}
		v.Set(reflect.ValueOf(d))
		return
	case reflect.TypeOf(time.Time{}):
		v.Set(reflect.ValueOf(time.Date(1900+t.Intn("v-year", 300), time.Month(1+t.Intn("v-month", 12)), 1+t.Intn("v-day", 28),
			t.Intn("v-hour", 24), t.Intn("v-min", 60), t.Intn("v-sec", 60), t.Intn("v-ns", 1000)*1000000, time.UTC)))
		return
	case reflect.TypeOf((*url.URL)(nil)):
		if t.Chance("v-nilptr", 1, 6) {
			return
		}
		u, _ := url.Parse("http://example.com/" + fmt.Sprint(t.Intn("v-url", 1000)))
		v.Set(reflect.ValueOf(u))
		return
	case reflect.TypeOf(compact_time.Time{}):
		v.Set(reflect.ValueOf(compact_time.NewDate(1+t.Intn("v-year", 3000), 1+t.Intn("v-month", 12), 1+t.Intn("v-day", 28))))
		return
	case reflect.TypeOf(types.Media{}):
		v.Set(reflect.ValueOf(types.Media{MediaType: "a/b", Data: t.Bytes("v-media", t.Small("v-media-len", 12))}))
		return
	case reflect.TypeOf(types.Node{}):
		n := types.Node{Value: int64(t.Intn("v-node", 100))}
		for i := t.Small("v-node-n", 3); i > 0; i-- {
			n.Children = append(n.Children, g.str())
		}
		if g.o.Shared && !g.o.NoCycles && !g.cyclic && !g.dag && len(n.Children) > 0 && t.Chance("v-node-self", 1, 4) {
			// a node among its own children (the struct is copied into the
			// slice, but the copy shares the slice: a cycle without a pointer)
			n.Children[len(n.Children)-1] = n
			g.cyclic = true
			g.shared++
		}
		v.Set(reflect.ValueOf(n))
		return
	case reflect.TypeOf(types.Edge{}):
		v.Set(reflect.ValueOf(types.Edge{Source: g.str() + "s", Description: int64(t.Intn("v-edge", 100)), Destination: g.str() + "d"}))
		return
	}
	switch v.Kind() {
	case reflect.Bool:
		v.SetBool(t.Bool("v-bool"))
	case reflect.Int, reflect.Int8, reflect.Int16, reflect.Int32, reflect.Int64:
		bits := uint(v.Type().Bits())
		x := int64(t.U64("v-int"))
		switch t.Intn("v-int-class", 4) {
		case 0:
			x = x % 100
		case 1:
			x = x % 70000
		case 3:
			// the edges of the type's range and of the narrower encodings
			x = []int64{-1 << 63, 1<<63 - 1, -1<<63 + 1, -1 << 31, 1<<31 - 1, -1 << 15, -129, 255, 256, 65535, 65536, 1 << 32, -1}[x&0xffff%13]
		}
		x = x << (64 - bits) >> (64 - bits)
		v.SetInt(x)
	case reflect.Uint, reflect.Uint8, reflect.Uint16, reflect.Uint32, reflect.Uint64, reflect.Uintptr:
		bits := uint(v.Type().Bits())
		x := t.U64("v-uint")
		switch t.Intn("v-uint-class", 4) {
		case 0:
			x = x % 100
		case 1:
			x = x % 70000
		case 3:
			x = []uint64{1<<64 - 1, 1 << 63, 1<<63 - 1, 1 << 32, 1<<32 - 1, 65536, 65535, 256, 255}[x%9]
		}
		x = x << (64 - bits) >> (64 - bits)
		v.SetUint(x)
	case reflect.Float32:
		v.SetFloat(float64(float32(t.Intn("v-f32", 100000)) / 32))
	case reflect.Float64:
		v.SetFloat(float64(int64(t.Draw("v-f64", 1<<40))-(1<<39)) / 1024)
	case reflect.Complex64, reflect.Complex128:
		v.SetComplex(complex(1, 2))
	case reflect.String:
		v.SetString(g.str())
	case reflect.Interface:
		if g.o.Shared && len(g.refs) > 0 && t.Chance("v-sharediface", 1, 5) {
			// an interface holding an existing pointer or map (possibly an
			// ancestor: a cycle through an interface)
			if r := g.refs[t.Intn("v-sharediface-which", len(g.refs))]; g.mayShare(r) {
				v.Set(r)
				g.shared++
				return
			}
		}
		switch t.Intn("v-iface", 6) {
		case 0:
		case 1:
			v.Set(reflect.ValueOf(int64(t.Intn("v-iface-int", 1000)) - 500))
		case 2:
			v.Set(reflect.ValueOf(g.str()))
		case 3:
			if depth < g.o.MaxDepth {
				l := []interface{}{}
				for i := t.Small("v-iface-n", 3); i > 0; i-- {
					l = append(l, float64(t.Intn("v-iface-f", 100))/4)
				}
				v.Set(reflect.ValueOf(l))
			}
		case 4:
			v.Set(reflect.ValueOf(t.Bool("v-iface-bool")))
		case 5:
			if g.o.Unsupported && t.Bool("v-iface-bad") {
				g.ok = false
				v.Set(reflect.ValueOf(make(chan int)))
			} else {
				v.Set(reflect.ValueOf(map[interface{}]interface{}{"k": uint64(t.Intn("v-iface-u", 50))}))
			}
		}
	case reflect.Slice:
		if t.Chance("v-nilslice", 1, 8) {
			return
		}
		n := t.Small("v-slicelen", 4)
		if depth >= g.o.MaxDepth+2 {
			n = 0
		}
		s := reflect.MakeSlice(v.Type(), n, n)
		for i := 0; i < n; i++ {
			g.fill(s.Index(i), depth+1)
		}
		v.Set(s)
	case reflect.Array:
		for i := 0; i < v.Len(); i++ {
			g.fill(v.Index(i), depth+1)
		}
	case reflect.Map:
		if t.Chance("v-nilmap", 1, 8) {
			return
		}
		m := reflect.MakeMap(v.Type())
		if g.o.Shared {
			g.refs = append(g.refs, m)
			g.enter(m)
			defer g.leave(m)
		}
		// at most one entry: Go map iteration order cannot be seeded
		if t.Bool("v-mapentry") && depth < g.o.MaxDepth+2 {
			k := reflect.New(v.Type().Key()).Elem()
			g.fill(k, depth+1)
			e := reflect.New(v.Type().Elem()).Elem()
			g.fill(e, depth+1)
			m.SetMapIndex(k, e)
		}
		v.Set(m)
	case reflect.Ptr:
		if t.Chance("v-nilptr", 1, 5) || depth >= g.o.MaxDepth+3 {
			return
		}
		if g.o.Shared && t.Chance("v-sharedptr", 1, 4) {
			// point at something that already exists: a sibling (shared data) or
			// an ancestor still being filled (a cycle)
			for i := len(g.refs) - 1; i >= 0; i-- {
				if g.refs[i].Type() == v.Type() && g.mayShare(g.refs[i]) {
					v.Set(g.refs[i])
					g.shared++
					return
				}
			}
		}
		p := reflect.New(v.Type().Elem())
		g.refs = append(g.refs, p)
		g.enter(p)
		g.fill(p.Elem(), depth+1)
		g.leave(p)
		v.Set(p)
	case reflect.Struct:
		for i := 0; i < v.NumField(); i++ {
			if v.Field(i).CanSet() {
				g.fill(v.Field(i), depth+1)
			}
		}
	case reflect.Chan:
		if t.Bool("v-chan") {
			v.Set(reflect.MakeChan(v.Type(), 0))
		}
	case reflect.Func, reflect.UnsafePointer:
		// leave nil
	}
}
