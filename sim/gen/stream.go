// Package gen builds workloads from the tape: rules-valid event streams, the
// documents the real encoders produce for them, Go values and types.
package gen

import (
	"fmt"
	"math"
	"math/big"

	"github.com/cockroachdb/apd/v2"
	compact_float "github.com/kstenerud/go-compact-float"
	compact_time "github.com/kstenerud/go-compact-time"
	"github.com/kstenerud/go-concise-encoding/ce/events"

	"verifsim/rec"
	"verifsim/tape"
)

// Opts bounds and shapes a generated stream. The zero value is useless; use
// DrawOpts or fill it in.
type Opts struct {
	MaxDepth   int
	MaxItems   int // per container
	MaxArray   int // payload bytes per array
	Markers    bool
	Records    bool
	NodeEdge   bool
	Media      bool
	Custom     bool
	Comments   bool
	Padding    bool
	Big        bool
	Times      bool
	Chunked    bool // use the begin/chunk/data form for some arrays
	TopContainer bool // top-level object must be a list or map
	ArrayBias  bool // make about half of the values arrays
	TopMap         bool // with TopContainer: the top-level object is a map
	StringKeysOnly bool // map keys are always "k1", "k2", ... (field names of struct-shaped templates)
	MarkerBias     bool // markers and references three times as often
	RecordBias     bool // with Records: at least one record type of arity >= 2, and a quarter of the nestable values are record instances
	RecursiveRefs  bool // a marked container may be referenced from inside itself
	ForwardRefs    bool // references may precede their marker (resolved before the top-level container ends)
	NoNull     bool
	ASCIIMedia bool // CTE cannot carry a non-ASCII media type (a round-trip matter, not ours)
	Budget     int // rough cap on the number of events
}

// DrawOpts is the swarm draw: which features are enabled for this run.
func DrawOpts(t *tape.Tape) Opts {
	o := Opts{
		MaxDepth: 1 + t.Intn("o-depth", 5),
		MaxItems: 1 + t.Intn("o-items", 6),
		MaxArray: []int{4, 16, 40, 120}[t.Intn("o-array", 4)],
		Budget:   []int{12, 40, 120}[t.Intn("o-budget", 3)],
	}
	o.Markers = t.Bool("o-markers")
	o.Records = t.Bool("o-records")
	o.NodeEdge = t.Bool("o-nodeedge")
	o.Media = t.Bool("o-media")
	o.Custom = t.Bool("o-custom")
	o.Comments = t.Bool("o-comments")
	o.Padding = t.Bool("o-padding")
	o.Big = t.Bool("o-big")
	o.Times = t.Bool("o-times")
	o.Chunked = t.Bool("o-chunked")
	o.TopContainer = t.Chance("o-topcontainer", 3, 4)
	o.ForwardRefs = o.TopContainer && t.Chance("o-forwardrefs", 1, 3)
	if t.Chance("o-long-arrays", 1, 12) {
		// strings and arrays of a few KB: longer than the codecs' initial
		// buffers, so that buffers grow and refill in the middle of a document
		o.MaxArray = 2600
	}
	return o
}

type recType struct {
	name  string
	arity int
}

type sgen struct {
	t       *tape.Tape
	o       Opts
	evs     []rec.Ev
	keyCtr  int
	markCtr int
	marks   []string // ids of completed marked objects (non-keyable-safe refs only as values)
	pendingMark string
	forward     []string // ids referenced before their marker has been emitted
	recs    []recType
	count   int
}

func (g *sgen) emit(e rec.Ev) { g.evs = append(g.evs, e); g.count++ }

// Stream returns a complete document event stream (begin .. end).
func Stream(t *tape.Tape, o Opts) []rec.Ev {
	g := &sgen{t: t, o: o}
	g.emit(rec.Ev{K: rec.KBeginDocument})
	g.emit(rec.Ev{K: rec.KVersion, U: 0})
	if o.Records {
		n := t.Small("n-rectypes", 2)
		if o.RecordBias && n == 0 {
			n = 1
		}
		for i := 0; i < n; i++ {
			name := fmt.Sprintf("r%d", i)
			arity := t.Small("rt-arity", 3)
			if o.RecordBias && arity < 2 {
				arity = 2
			}
			g.emit(rec.Ev{K: rec.KRecordType, S: []byte(name)})
			for k := 0; k < arity; k++ {
				g.key()
			}
			g.emit(rec.Ev{K: rec.KEndContainer})
			g.recs = append(g.recs, recType{name, arity})
		}
	}
	g.noise()
	if o.TopContainer {
		if t.Bool("top-map") || o.TopMap {
			g.mapv(0)
		} else {
			g.list(0)
		}
	} else {
		g.value(0)
	}
	g.emit(rec.Ev{K: rec.KEndDocument})
	return g.evs
}

func (g *sgen) noise() {
	if g.o.Padding && g.t.Chance("pad", 1, 6) {
		g.emit(rec.Ev{K: rec.KPadding})
	}
	if g.o.Comments && g.t.Chance("comment", 1, 6) {
		g.emit(rec.Ev{K: rec.KComment, B: g.t.Bool("com-multi"), S: []byte(commentSafe(g.text("com", 8, false)))})
	}
}

// characters of 1-4 bytes, and ones the text format must escape (quote,
// backslash, controls, DEL, NEL, line separator)
var textPool = []string{"a", "b", "z", "Q", "0", "_", " ", "é", "ß", "日", "本", "€", "𝄞", "😀", "x", "-", ".", "k",
	"\"", "\\", "\t", "\n", "\x01", "\x7f", "\u0085", " ", "/", "*"}

// commentSafe drops what would end or break a comment (line ends, controls, '*', '/').
func commentSafe(s string) string {
	out := make([]rune, 0, len(s))
	for _, r := range s {
		if r < 0x20 || r == 0x7f || r == 0x85 || r == 0x2028 || r == '*' || r == '/' || r == '\\' || r == '"' {
			continue
		}
		out = append(out, r)
	}
	return string(out)
}

func (g *sgen) text(label string, maxRunes int, nonEmpty bool) string {
	if g.o.MaxArray >= 1000 && label != "com" {
		// "long arrays" apply to text as well: strings of a few KB
		maxRunes = g.o.MaxArray / 2
	}
	n := g.t.Small(label+"-len", maxRunes)
	if nonEmpty && n == 0 {
		n = 1
	}
	s := ""
	for i := 0; i < n; i++ {
		s += textPool[g.t.Intn(label+"-ch", len(textPool))]
	}
	return s
}

// key emits a unique keyable object.
func (g *sgen) key() {
	g.keyCtr++
	c := g.keyCtr
	kind := g.t.Intn("key-kind", 6)
	if g.o.StringKeysOnly {
		kind = 0 // "k1", "k2", ...: the field names of the struct-shaped templates
	}
	switch kind {
	case 0:
		g.stringArray(events.ArrayTypeString, []byte(fmt.Sprintf("k%d", c)))
	case 1:
		g.emit(rec.Ev{K: rec.KPositiveInt, U: uint64(c)})
	case 2:
		g.emit(rec.Ev{K: rec.KNegativeInt, U: uint64(c)})
	case 3:
		g.stringArray(events.ArrayTypeString, []byte(fmt.Sprintf("ключ%d𝄞", c)))
	case 4:
		if g.o.Times {
			g.emit(rec.Ev{K: rec.KTime, T: compact_time.NewDate(2000+c, 1+c%12, 1+c%28)})
		} else {
			g.emit(rec.Ev{K: rec.KInt, I: int64(-1000 - c)})
		}
	case 5:
		u := make([]byte, 16)
		u[0] = byte(c)
		u[1] = byte(c >> 8)
		u[15] = 0xee
		g.emit(rec.Ev{K: rec.KUID, S: u})
	}
}

func (g *sgen) value(depth int) {
	g.noise()
	// markers / references wrap or replace a value
	if g.o.Markers && depth > 0 {
		roll := g.t.Intn("mark?", 8)
		if g.o.MarkerBias && roll >= 5 {
			roll = 1 + roll%2 // markers and references three times as often
		}
		switch roll {
		case 3:
			// forward reference: the marker it names is emitted later
			if g.o.ForwardRefs && len(g.forward) < 2 {
				g.markCtr++
				id := fmt.Sprintf("f%d", g.markCtr)
				g.forward = append(g.forward, id)
				g.emit(rec.Ev{K: rec.KReferenceLocal, S: []byte(id)})
				return
			}
		case 1:
			g.markCtr++
			id := fmt.Sprintf("m%d", g.markCtr)
			if len(g.forward) > 0 && g.t.Bool("resolve-forward") {
				id, g.forward = g.forward[0], g.forward[1:]
			}
			g.emit(rec.Ev{K: rec.KMarker, S: []byte(id)})
			if g.o.RecursiveRefs {
				// the marker becomes referable as soon as its container opens:
				// references from inside the marked container make it cyclic
				g.pendingMark = id
			}
			g.plainValue(depth, true)
			if g.pendingMark == id || !g.o.RecursiveRefs {
				g.marks = append(g.marks, id)
			}
			g.pendingMark = ""
			return
		case 2:
			if len(g.marks) > 0 {
				id := g.marks[g.t.Intn("ref-which", len(g.marks))]
				g.emit(rec.Ev{K: rec.KReferenceLocal, S: []byte(id)})
				return
			}
		}
	}
	g.plainValue(depth, false)
}

func (g *sgen) plainValue(depth int, marked bool) {
	t := g.t
	canNest := depth < g.o.MaxDepth && g.count < g.o.Budget
	kind := t.Intn("val-kind", 16)
	if g.o.ArrayBias && kind != 3 && kind != 4 && t.Chance("array-bias", 1, 2) {
		kind = []int{8, 2, 9, 15, 8, 2}[t.Intn("array-bias-kind", 6)]
	}
	if g.o.RecordBias && g.o.Records && len(g.recs) > 0 && canNest && t.Chance("record-bias", 1, 4) {
		kind = 14
	}
	switch kind {
	case 0:
		g.emit(rec.Ev{K: rec.KPositiveInt, U: g.uintv()})
	case 1:
		if marked || g.o.NoNull {
			g.emit(rec.Ev{K: rec.KTrue})
		} else {
			g.emit(rec.Ev{K: rec.KNull})
		}
	case 2:
		g.stringArray(events.ArrayTypeString, []byte(g.text("str", 12, false)))
	case 3:
		if canNest {
			g.list(depth)
		} else {
			g.emit(rec.Ev{K: rec.KFalse})
		}
	case 4:
		if canNest {
			g.mapv(depth)
		} else {
			g.emit(rec.Ev{K: rec.KBoolean, B: t.Bool("boolv")})
		}
	case 5:
		g.emit(rec.Ev{K: rec.KNegativeInt, U: g.uintv()})
	case 6:
		g.emit(rec.Ev{K: rec.KInt, I: int64(g.uintv())>>1 - int64(t.Intn("int-neg", 200))})
	case 7:
		g.floatv()
	case 8:
		g.typedArray()
	case 9:
		switch t.Intn("strlike", 3) {
		case 0:
			g.stringArray(events.ArrayTypeResourceID, []byte("http://x.y/"+g.text("rid", 6, false)))
		case 1:
			if !marked {
				g.stringArray(events.ArrayTypeReferenceRemote, []byte("http://r.s/"+g.text("rref", 6, false)))
			} else {
				g.stringArray(events.ArrayTypeString, []byte(g.text("str", 30, false)))
			}
		case 2:
			g.stringArray(events.ArrayTypeString, []byte(g.text("str", 60, false)))
		}
	case 10:
		u := t.Bytes("uid", 16)
		g.emit(rec.Ev{K: rec.KUID, S: u})
	case 11:
		if g.o.Times {
			g.timev()
		} else {
			g.emit(rec.Ev{K: rec.KTrue})
		}
	case 12:
		if g.o.Big {
			g.bigv()
		} else {
			g.emit(rec.Ev{K: rec.KPositiveInt, U: uint64(t.Intn("small", 100))})
		}
	case 13:
		if g.o.NodeEdge && canNest {
			if t.Bool("edge") {
				g.emit(rec.Ev{K: rec.KEdge})
				g.simpleNonNull(depth + 1)
				g.simpleNonNull(depth + 1)
				g.simpleNonNull(depth + 1)
				g.emit(rec.Ev{K: rec.KEndContainer})
			} else {
				g.emit(rec.Ev{K: rec.KNode})
				g.simpleNonNull(depth + 1)
				n := t.Small("node-n", g.o.MaxItems)
				for i := 0; i < n; i++ {
					g.value(depth + 1)
				}
				g.emit(rec.Ev{K: rec.KEndContainer})
			}
		} else {
			g.emit(rec.Ev{K: rec.KInt, I: -int64(t.Intn("negsmall", 100))})
		}
	case 14:
		if g.o.Records && len(g.recs) > 0 && canNest {
			r := g.recs[t.Intn("rec-which", len(g.recs))]
			g.emit(rec.Ev{K: rec.KRecord, S: []byte(r.name)})
			for i := 0; i < r.arity; i++ {
				g.value(depth + 1)
			}
			g.emit(rec.Ev{K: rec.KEndContainer})
		} else {
			g.stringArray(events.ArrayTypeString, []byte(g.text("str", 3, false)))
		}
	case 15:
		switch {
		case g.o.Media && t.Bool("media"):
			g.media()
		case g.o.Custom:
			g.custom()
		default:
			g.emit(rec.Ev{K: rec.KNan, B: t.Bool("snan")})
		}
	}
}

// simpleNonNull: a non-null, non-container-ish object (edge/node components).
func (g *sgen) simpleNonNull(depth int) {
	switch g.t.Intn("simple", 4) {
	case 0:
		g.emit(rec.Ev{K: rec.KPositiveInt, U: g.uintv()})
	case 1:
		g.stringArray(events.ArrayTypeString, []byte(g.text("str", 6, false)))
	case 2:
		g.stringArray(events.ArrayTypeResourceID, []byte("http://e/"+g.text("rid", 4, false)))
	case 3:
		if depth < g.o.MaxDepth {
			g.list(depth)
		} else {
			g.emit(rec.Ev{K: rec.KTrue})
		}
	}
}

func (g *sgen) openMarked() {
	if g.pendingMark != "" {
		g.marks = append(g.marks, g.pendingMark)
		g.pendingMark = ""
	}
}

func (g *sgen) list(depth int) {
	g.emit(rec.Ev{K: rec.KList})
	g.openMarked()
	n := g.t.Small("list-n", g.o.MaxItems)
	for i := 0; i < n; i++ {
		g.value(depth + 1)
	}
	if depth == 0 {
		// resolve what is still referenced but not yet marked
		for _, id := range g.forward {
			g.emit(rec.Ev{K: rec.KMarker, S: []byte(id)})
			g.emit(rec.Ev{K: rec.KTrue})
		}
		g.forward = nil
	}
	g.noise()
	g.emit(rec.Ev{K: rec.KEndContainer})
}

func (g *sgen) mapv(depth int) {
	g.emit(rec.Ev{K: rec.KMap})
	g.openMarked()
	n := g.t.Small("map-n", g.o.MaxItems)
	for i := 0; i < n; i++ {
		g.noise()
		g.key()
		g.value(depth + 1)
	}
	if depth == 0 {
		for _, id := range g.forward {
			g.key()
			g.emit(rec.Ev{K: rec.KMarker, S: []byte(id)})
			g.emit(rec.Ev{K: rec.KTrue})
		}
		g.forward = nil
	}
	g.emit(rec.Ev{K: rec.KEndContainer})
}

func (g *sgen) uintv() uint64 {
	switch g.t.Intn("uint-class", 6) {
	case 0:
		return uint64(g.t.Intn("u-small", 101))
	case 1:
		return uint64(g.t.Intn("u-8", 256))
	case 2:
		return uint64(g.t.Intn("u-16", 65536))
	case 3:
		return g.t.Draw("u-32", 1<<32)
	case 4:
		return g.t.Draw("u-48", 1<<48)
	}
	return g.t.U64("u-64")
}

func (g *sgen) floatv() {
	t := g.t
	switch t.Intn("float-kind", 8) {
	case 0:
		g.emit(rec.Ev{K: rec.KFloat, F: float64(t.Intn("f-int", 1000)) / 8})
	case 1:
		g.emit(rec.Ev{K: rec.KFloat, F: math.Float64frombits(t.U64("f-bits") &^ (0x7ff << 52) | uint64(1000+t.Intn("f-exp", 50))<<52)})
	case 2:
		g.emit(rec.Ev{K: rec.KDecimalFloat, DF: compact_float.DFloatValue(int32(t.Intn("df-exp", 40))-20, int64(t.Draw("df-coef", 1<<40))-(1<<39))})
	case 3:
		g.emit(rec.Ev{K: rec.KFloat, F: math.Inf(1 - 2*t.Intn("inf-sign", 2))})
	case 4:
		g.emit(rec.Ev{K: rec.KNan, B: t.Bool("snan")})
	case 5:
		g.emit(rec.Ev{K: rec.KFloat, F: float64(float32(t.Intn("f32", 100000)) / 16)})
	case 6:
		g.emit(rec.Ev{K: rec.KDecimalFloat, DF: compact_float.DFloatValue(-1, int64(1+t.Intn("df-small", 99)))})
	case 7:
		g.emit(rec.Ev{K: rec.KFloat, F: -0.5 * float64(1+t.Intn("f-neg", 64))})
	}
}

func (g *sgen) bigv() {
	t := g.t
	switch t.Intn("big-kind", 3) {
	case 0:
		b := new(big.Int).SetBytes(t.Bytes("bigint", 9+t.Intn("bigint-len", 12)))
		b.SetBit(b, 70, 1)
		if t.Bool("bigint-neg") {
			b.Neg(b)
		}
		g.emit(rec.Ev{K: rec.KBigInt, Big: b})
	case 1:
		d := apd.New(int64(t.Draw("bdf-coef", 1<<50)), int32(t.Intn("bdf-exp", 2000))-1000)
		// make it big enough not to fit a DFloat coefficient sometimes
		if t.Bool("bdf-huge") {
			d.Coeff.Mul(&d.Coeff, big.NewInt(1).Lsh(big.NewInt(1), 70))
			d.Coeff.Add(&d.Coeff, big.NewInt(7))
		}
		g.emit(rec.Ev{K: rec.KBigDecimalFloat, BDF: d})
	case 2:
		f := new(big.Float).SetPrec(64).SetInt64(int64(t.Draw("bf-int", 1<<40)) + 1)
		f.SetMantExp(f, t.Intn("bf-exp", 200)-100)
		g.emit(rec.Ev{K: rec.KBigFloat, BF: f})
	}
}

func (g *sgen) tz() compact_time.Timezone {
	switch g.t.Intn("tz", 4) {
	case 0:
		return compact_time.TZAtUTC()
	case 1:
		return compact_time.TZAtAreaLocation([]string{"Europe/Berlin", "America/Vancouver", "Asia/Tokyo", "L"}[g.t.Intn("tz-area", 4)])
	case 2:
		return compact_time.TZAtLatLong(g.t.Intn("lat", 18000)-9000, g.t.Intn("long", 36000)-18000)
	}
	return compact_time.TZWithMiutesOffsetFromUTC(g.t.Intn("tzoff", 24*60) - 12*60)
}

func (g *sgen) timev() {
	t := g.t
	ns := []int{0, 1000000 * t.Intn("ms", 1000), 1000 * t.Intn("us", 1000000), t.Intn("ns", 1000000000)}[t.Intn("subsec", 4)]
	switch t.Intn("time-kind", 3) {
	case 0:
		g.emit(rec.Ev{K: rec.KTime, T: compact_time.NewDate(t.Intn("year", 4000)-500, 1+t.Intn("month", 12), 1+t.Intn("day", 28))})
	case 1:
		g.emit(rec.Ev{K: rec.KTime, T: compact_time.NewTime(t.Intn("hour", 24), t.Intn("min", 60), t.Intn("sec", 60), ns, g.tz())})
	case 2:
		y := t.Intn("year", 4000) - 500
		if y == 0 {
			y = 1
		}
		g.emit(rec.Ev{K: rec.KTime, T: compact_time.NewTimestamp(y, 1+t.Intn("month", 12), 1+t.Intn("day", 28),
			t.Intn("hour", 24), t.Intn("min", 60), t.Intn("sec", 60), ns, g.tz())})
	}
}

// ---- arrays ---------------------------------------------------------------

// Array is a generated array with its payload, independent of chunking.
type Array struct {
	Kind    rec.Kind // KArrayBegin, KMediaBegin, KCustomBegin
	AT      events.ArrayType
	Custom  uint64
	Media   string
	Payload []byte
	Elems   uint64 // element count (bits for bit arrays)
}

var typedKinds = []events.ArrayType{
	events.ArrayTypeUint8, events.ArrayTypeBit, events.ArrayTypeUint16, events.ArrayTypeUint32, events.ArrayTypeUint64,
	events.ArrayTypeInt8, events.ArrayTypeInt16, events.ArrayTypeInt32, events.ArrayTypeInt64,
	events.ArrayTypeFloat16, events.ArrayTypeFloat32, events.ArrayTypeFloat64, events.ArrayTypeUID,
}

func ElemBits(at events.ArrayType) int { return at.ElementSize() }

// DrawTypedArray draws a typed (non string-like) array.
func DrawTypedArray(t *tape.Tape, maxBytes int) Array {
	at := typedKinds[t.Intn("arr-type", len(typedKinds))]
	bits := at.ElementSize()
	var a Array
	a.Kind = rec.KArrayBegin
	a.AT = at
	if at == events.ArrayTypeBit {
		n := t.Small("arr-bits", maxBytes*8)
		a.Elems = uint64(n)
		a.Payload = t.Bytes("arr-data", (n+7)/8)
		if n%8 != 0 {
			a.Payload[len(a.Payload)-1] &= byte(1<<uint(n%8)) - 1
		}
		return a
	}
	eb := bits / 8
	n := t.Small("arr-elems", maxBytes/eb)
	a.Elems = uint64(n)
	a.Payload = t.Bytes("arr-data", n*eb)
	// avoid float NaN payload variety: keep floats to finite values so CTE text is canonical
	switch at {
	case events.ArrayTypeFloat16:
		for i := 0; i < n; i++ {
			a.Payload[2*i+1] &= 0x3f | 0x80 // exponent < all-ones
			a.Payload[2*i+1] &^= 0x40
		}
	case events.ArrayTypeFloat32:
		for i := 0; i < n; i++ {
			a.Payload[4*i+3] &^= 0x40
		}
	case events.ArrayTypeFloat64:
		for i := 0; i < n; i++ {
			a.Payload[8*i+7] &^= 0x40
		}
	}
	return a
}

func (g *sgen) typedArray() {
	a := DrawTypedArray(g.t, g.o.MaxArray)
	g.emitArray(a)
}

func (g *sgen) stringArray(at events.ArrayType, payload []byte) {
	g.emitArray(Array{Kind: rec.KArrayBegin, AT: at, Payload: payload, Elems: uint64(len(payload))})
}

func (g *sgen) media() {
	a := Array{Kind: rec.KMediaBegin, Media: []string{"a/b", "text/plain", "application/x-é"}[g.t.Intn("media-type", 3)]}
	if g.o.ASCIIMedia && a.Media == "application/x-é" {
		a.Media = "application/x-e"
	}
	a.Payload = g.t.Bytes("media-data", g.t.Small("media-len", g.o.MaxArray))
	a.Elems = uint64(len(a.Payload))
	g.emitArray(a)
}

func (g *sgen) custom() {
	a := Array{Kind: rec.KCustomBegin, Custom: uint64(g.t.Intn("custom-type", 300))}
	if g.t.Bool("custom-text") {
		a.AT = events.ArrayTypeCustomText
		a.Payload = []byte(g.text("ctext", 10, false))
	} else {
		a.AT = events.ArrayTypeCustomBinary
		a.Payload = g.t.Bytes("cbin", g.t.Small("cbin-len", g.o.MaxArray))
	}
	a.Elems = uint64(len(a.Payload))
	g.emitArray(a)
}

// emitArray chooses a form: whole-array event, or begin/chunk/data.
func (g *sgen) emitArray(a Array) {
	form := 0
	if g.o.Chunked {
		form = g.t.Intn("arr-form", 3)
	}
	if form == 0 {
		g.evs = append(g.evs, WholeArray(a)...)
		g.count++
		return
	}
	plan := OneChunk(a)
	if form == 2 {
		plan = DrawChunking(g.t, a, false)
	}
	g.evs = append(g.evs, ChunkedArray(a, plan)...)
	g.count++
}

// WholeArray renders the array as one complete event.
func WholeArray(a Array) []rec.Ev {
	switch a.Kind {
	case rec.KMediaBegin:
		return []rec.Ev{{K: rec.KMedia, MT: a.Media, S: a.Payload}}
	case rec.KCustomBegin:
		if a.AT == events.ArrayTypeCustomText {
			return []rec.Ev{{K: rec.KCustomText, U: a.Custom, S: a.Payload}}
		}
		return []rec.Ev{{K: rec.KCustomBinary, U: a.Custom, S: a.Payload}}
	}
	return []rec.Ev{{K: rec.KArray, AT: a.AT, U: a.Elems, S: a.Payload}}
}

// Chunking describes how an array's payload is cut into chunks and how each
// chunk's bytes are cut into data events.
type Chunking struct {
	Chunks []Chunk
}
type Chunk struct {
	Elems  uint64 // declared element count
	Bytes  int    // payload bytes belonging to this chunk
	Splits []int  // sizes of the OnArrayData calls (sum == Bytes); empty for a zero-length chunk
}

func OneChunk(a Array) Chunking {
	c := Chunk{Elems: a.Elems, Bytes: len(a.Payload)}
	if len(a.Payload) > 0 {
		c.Splits = []int{len(a.Payload)}
	}
	return Chunking{Chunks: []Chunk{c}}
}

func isStringLike(a Array) bool {
	switch a.AT {
	case events.ArrayTypeString, events.ArrayTypeResourceID, events.ArrayTypeReferenceRemote, events.ArrayTypeCustomText:
		return a.Kind != rec.KMediaBegin
	}
	return false
}

// runeStarts returns the offsets at which a chunk boundary is allowed.
func chunkBoundaries(a Array) []int {
	n := len(a.Payload)
	var out []int
	if a.Kind == rec.KMediaBegin || a.AT == events.ArrayTypeCustomBinary {
		for i := 0; i <= n; i++ {
			out = append(out, i)
		}
		return out
	}
	if isStringLike(a) {
		for i := 0; i <= n; i++ {
			if i == n || a.Payload[i]&0xc0 != 0x80 {
				out = append(out, i)
			}
		}
		return out
	}
	if a.AT == events.ArrayTypeBit {
		// non-final chunks must hold a multiple of 8 bits
		for i := 0; i < n; i++ {
			out = append(out, i)
		}
		// a boundary at the very end makes the preceding chunk non-final, so
		// it is only allowed when the bit count fills the last byte
		if n == 0 || a.Elems%8 == 0 {
			out = append(out, n)
		}
		return out
	}
	eb := a.AT.ElementSize() / 8
	for i := 0; i <= n; i += eb {
		out = append(out, i)
	}
	return out
}

// DrawChunking draws chunk boundaries (only where the format allows them) and
// data-event splits. If elementAligned is true, data events are split only at
// element boundaries (what the events API documents); otherwise anywhere,
// including inside elements and inside multi-byte characters.
func DrawChunking(t *tape.Tape, a Array, elementAligned bool) Chunking {
	bounds := chunkBoundaries(a)
	n := len(a.Payload)
	var cuts []int
	nch := t.Small("chunk-n", 4)
	for i := 0; i < nch && len(bounds) > 0; i++ {
		cuts = append(cuts, bounds[t.Intn("chunk-at", len(bounds))])
	}
	cuts = append(cuts, n)
	sortInts(cuts)
	var ck Chunking
	prev := 0
	for i, c := range cuts {
		last := i == len(cuts)-1
		bytes := c - prev
		if bytes == 0 && !last && !t.Bool("chunk-zero") {
			continue
		}
		ch := Chunk{Bytes: bytes}
		ch.Elems = elemsFor(a, prev, c, last)
		ch.Splits = DrawSplits(t, a, prev, c, elementAligned)
		ck.Chunks = append(ck.Chunks, ch)
		prev = c
	}
	return ck
}

func elemsFor(a Array, from, to int, last bool) uint64 {
	bytes := to - from
	if a.Kind == rec.KArrayBegin && a.AT == events.ArrayTypeBit {
		if last {
			return a.Elems - uint64(from)*8
		}
		return uint64(bytes) * 8
	}
	if a.Kind == rec.KArrayBegin && !isStringLike(a) {
		return uint64(bytes / (a.AT.ElementSize() / 8))
	}
	return uint64(bytes)
}

// DrawSplits cuts payload[from:to] into data-event sizes.
func DrawSplits(t *tape.Tape, a Array, from, to int, elementAligned bool) []int {
	out := drawSplits(t, a, from, to, elementAligned)
	// a producer may also flush nothing: an empty data event before the chunk's
	// last piece carries no data and must change nothing
	if len(out) > 0 && t.Chance("split-empty-event", 1, 5) {
		at := t.Intn("split-empty-at", len(out))
		out = append(out[:at:at], append([]int{0}, out[at:]...)...)
	}
	return out
}

func drawSplits(t *tape.Tape, a Array, from, to int, elementAligned bool) []int {
	bytes := to - from
	if bytes == 0 {
		return nil
	}
	step := 1
	if elementAligned && a.Kind == rec.KArrayBegin && !isStringLike(a) && a.AT != events.ArrayTypeBit {
		step = a.AT.ElementSize() / 8
	}
	mode := t.Intn("split-mode", 4)
	var out []int
	switch mode {
	case 0:
		return []int{bytes}
	case 1: // one unit per event
		for off := 0; off < bytes; off += step {
			out = append(out, step)
		}
		return out
	case 2: // single split
		units := bytes / step
		if units < 2 {
			return []int{bytes}
		}
		k := (1 + t.Intn("split-at", units-1)) * step
		return []int{k, bytes - k}
	}
	for off := 0; off < bytes; {
		k := (1 + t.Small("split-sz", 9)) * step
		if off+k > bytes {
			k = bytes - off
		}
		out = append(out, k)
		off += k
	}
	return out
}

func sortInts(a []int) {
	for i := 1; i < len(a); i++ {
		for j := i; j > 0 && a[j] < a[j-1]; j-- {
			a[j], a[j-1] = a[j-1], a[j]
		}
	}
}

// ChunkedArray renders the array with the given chunking.
func ChunkedArray(a Array, ck Chunking) []rec.Ev {
	var evs []rec.Ev
	switch a.Kind {
	case rec.KMediaBegin:
		evs = append(evs, rec.Ev{K: rec.KMediaBegin, MT: a.Media})
	case rec.KCustomBegin:
		evs = append(evs, rec.Ev{K: rec.KCustomBegin, AT: a.AT, U: a.Custom})
	default:
		evs = append(evs, rec.Ev{K: rec.KArrayBegin, AT: a.AT})
	}
	off := 0
	for i, c := range ck.Chunks {
		evs = append(evs, rec.Ev{K: rec.KArrayChunk, U: c.Elems, B: i != len(ck.Chunks)-1})
		for _, s := range c.Splits {
			evs = append(evs, rec.Ev{K: rec.KArrayData, S: a.Payload[off : off+s]})
			off += s
		}
	}
	return evs
}
