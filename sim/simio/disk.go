package simio

import (
	"fmt"

	"verifsim/tape"
)

// StorageFault is one corruption applied to a stored document before it is read.
type StorageFault struct {
	Kind string `json:"kind"`
	At   int    `json:"at"`
	Len  int    `json:"len,omitempty"`
	Val  []byte `json:"val,omitempty"`
}

func (f StorageFault) String() string { return fmt.Sprintf("%s@%d+%d:%x", f.Kind, f.At, f.Len, f.Val) }

var faultKinds = []string{"bitflip", "byteset", "zerorange", "truncate", "duprange", "misdirect", "insert", "garbage-tail", "len-overwrite", "garbage-all", "empty"}

// uleb encodes v as ULEB128.
func uleb(v uint64) []byte {
	var out []byte
	for {
		b := byte(v & 0x7f)
		v >>= 7
		if v != 0 {
			out = append(out, b|0x80)
		} else {
			return append(out, b)
		}
	}
}

// DrawStorageFaults draws n faults for a document of the given length. other is
// a second document (for misdirected writes); lenOffsets are offsets the
// generator knows to hold length fields (may be nil).
func DrawStorageFaults(t *tape.Tape, n int, docLen int, lenOffsets []int) []StorageFault {
	var fs []StorageFault
	for i := 0; i < n; i++ {
		k := faultKinds[t.Intn("sf-kind", len(faultKinds))]
		f := StorageFault{Kind: k}
		if docLen > 0 {
			f.At = t.Intn("sf-at", docLen)
		}
		switch k {
		case "bitflip":
			f.Val = []byte{1 << uint(t.Intn("sf-bit", 8))}
		case "byteset":
			f.Val = []byte{interesting[t.Intn("sf-byte", len(interesting))]}
		case "zerorange", "duprange":
			f.Len = 1 + t.Small("sf-len", 16)
		case "truncate":
		case "misdirect", "insert", "garbage-tail":
			f.Val = t.Bytes("sf-data", 1+t.Small("sf-len", 12))
		case "len-overwrite":
			if len(lenOffsets) > 0 {
				f.At = lenOffsets[t.Intn("sf-lenoff", len(lenOffsets))]
			}
			f.Val = uleb(bigLengths[t.Intn("sf-biglen", len(bigLengths))])
		case "garbage-all":
			f.Val = t.Bytes("sf-data", t.Small("sf-len", 40))
			if t.Bool("sf-keep-header") {
				f.Len = 2
			}
		}
		fs = append(fs, f)
	}
	return fs
}

var interesting = []byte{0x00, 0xff, 0x7f, 0x80, 0x81, 0x7b, 0x7a, 0x79, 0x78, 0x77, 0x76, 0x90, 0x91, 0x92, 0x93, 0x94, 0x95, 0x96, 0x97, 0x98, 0x99, 0x9a, 0x9b,
	0x65, 0x66, 0x67, 0x68, 0x69, 0x6a, 0x6b, 0x6c, 0x6d, 0x6e, 0x6f, 0x70, 0x71, 0x72, 0x73, 0x74, 0x75, 0xe0, 0xf0, 0xf3, 0xfe,
	'"', '[', ']', '{', '}', '<', '>', '(', ')', '@', '&', '$', '|', '\\', '/', '*', '\n', ' ', '-', '.', 'e', 'x', ':', 'c', 'C', '0', '9'}

var bigLengths = []uint64{0x7f, 0x80, 0xffff, 0xfffff, 0xffffff, 0x7fffffff, 0xffffffff, 0x1ffffffff, 0xffffffffff, 0x7fffffffffffffff, 0xffffffffffffffff}

// Apply returns the corrupted copy.
func Apply(doc []byte, fs []StorageFault) []byte {
	d := append([]byte(nil), doc...)
	for _, f := range fs {
		at := f.At
		if at > len(d) {
			at = len(d)
		}
		switch f.Kind {
		case "bitflip":
			if at < len(d) {
				d[at] ^= f.Val[0]
			}
		case "byteset":
			if at < len(d) {
				d[at] = f.Val[0]
			}
		case "zerorange":
			for i := at; i < at+f.Len && i < len(d); i++ {
				d[i] = 0
			}
		case "truncate":
			d = d[:at]
		case "duprange":
			end := at + f.Len
			if end > len(d) {
				end = len(d)
			}
			seg := append([]byte(nil), d[at:end]...)
			d = append(d[:end:end], append(seg, d[end:]...)...)
		case "misdirect":
			for i, b := range f.Val {
				if at+i < len(d) {
					d[at+i] = b
				}
			}
		case "insert", "len-overwrite":
			if f.Kind == "len-overwrite" && at < len(d) {
				// replace the existing ULEB at this offset
				end := at
				for end < len(d) && d[end]&0x80 != 0 {
					end++
				}
				if end < len(d) {
					end++
				}
				d = append(d[:at:at], append(append([]byte(nil), f.Val...), d[end:]...)...)
			} else {
				d = append(d[:at:at], append(append([]byte(nil), f.Val...), d[at:]...)...)
			}
		case "garbage-tail":
			d = append(d, f.Val...)
		case "garbage-all":
			keep := f.Len
			if keep > len(d) {
				keep = len(d)
			}
			d = append(d[:keep:keep], f.Val...)
		case "empty":
			d = d[:0]
		}
	}
	return d
}
