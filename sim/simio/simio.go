// Package simio holds the simulated reader, writer and storage-fault models.
// These are the only stubs on the data path; everything they feed is real
// library code.
package simio

import (
	"errors"
	"fmt"
	"io"
	"sort"

	"verifsim/tape"
)

// ErrInjected is the sentinel all injected non-EOF failures wrap.
var ErrInjected = errors.New("simio: injected I/O failure")

// Yield is called at every reader/writer call when a scheduler is active.
var Yield func(site string)

func yield(site string) {
	if f := Yield; f != nil {
		f(site)
	}
}

// ---------------------------------------------------------------------------
// Reader

// ReadFault is a non-EOF failure injected at a byte offset.
type ReadFault struct {
	At        int  // fires when the read position reaches this offset (before delivering byte At)
	WithData  bool // deliver the bytes before At in the same call as the error: (m>0, err)
	Transient bool // error returned once; later reads continue
	ThenEOF   bool // error returned once; the source then reports a clean end (0, io.EOF)
}

// ReaderPlan describes how the stored bytes are delivered. Fragmentation is
// defined on the stream (like segments on a wire), not on the consumer's
// request sizes, so a plan means the same thing for every consumer.
type ReaderPlan struct {
	Boundaries  []int       // sorted offsets no single Read crosses
	ZeroBefore  map[int]int // offset -> number of (0,nil) reads issued when the position is at offset (max 2)
	MaxPerCall  int         // 0 = as many as asked
	EOFWithData bool        // the final bytes are returned together with io.EOF
	Scribble    bool        // overwrite the unused part of p (allowed by the io.Reader contract)
	Cut         int         // deliver only data[:Cut], then clean EOF; -1 = everything
	Faults      []ReadFault
}

type SimReader struct {
	data     []byte
	pos      int
	plan     ReaderPlan
	dead     error
	zeroDone map[int]int
	fdone    []bool
	bidx     int // cursor into plan.Boundaries

	Calls      int
	ZeroReads  int
	ShortReads int
	EOFData    int
	EOFs       int
	Fired      int // injected failures actually returned to the consumer
	FiredKinds map[string]int
	Scribbles  int
}

func NewReader(data []byte, plan ReaderPlan) *SimReader {
	d := data
	if plan.Cut >= 0 && plan.Cut < len(d) {
		d = d[:plan.Cut]
	}
	if !sort.IntsAreSorted(plan.Boundaries) {
		plan.Boundaries = append([]int(nil), plan.Boundaries...)
		sort.Ints(plan.Boundaries)
	}
	return &SimReader{data: d, plan: plan, FiredKinds: map[string]int{}, zeroDone: map[int]int{}, fdone: make([]bool, len(plan.Faults))}
}

func (r *SimReader) Pos() int { return r.pos }
func (r *SimReader) Len() int { return len(r.data) }

// nextFault returns the index of the earliest pending fault at or after pos.
func (r *SimReader) nextFault() int {
	best := -1
	for i, f := range r.plan.Faults {
		if r.fdone[i] || f.At < r.pos {
			continue
		}
		if best < 0 || f.At < r.plan.Faults[best].At {
			best = i
		}
	}
	return best
}

func (r *SimReader) fire(i int) error {
	f := r.plan.Faults[i]
	r.fdone[i] = true
	r.Fired++
	kind := "read-error"
	if f.WithData {
		kind = "read-error-with-data"
	}
	if f.At >= len(r.data) {
		kind += "-at-eof"
	}
	err := fmt.Errorf("%w (read at offset %d)", ErrInjected, f.At)
	switch {
	case f.Transient:
		kind += "-transient"
	case f.ThenEOF:
		// a source that reports its failure once and then looks finished
		// (not every reader is sticky): the consumer must not forget the error
		kind += "-then-eof"
		r.dead = io.EOF
	default:
		r.dead = err
	}
	r.FiredKinds[kind]++
	return err
}

func (r *SimReader) Read(p []byte) (int, error) {
	yield("read")
	r.Calls++
	if r.dead != nil {
		return 0, r.dead
	}
	if len(p) == 0 {
		return 0, nil
	}
	if z := r.plan.ZeroBefore[r.pos]; z > r.zeroDone[r.pos] && r.zeroDone[r.pos] < 2 {
		r.zeroDone[r.pos]++
		r.ZeroReads++
		if r.plan.Scribble {
			r.scribble(p)
		}
		return 0, nil
	}
	fi := r.nextFault()
	if fi >= 0 && r.plan.Faults[fi].At == r.pos {
		return 0, r.fire(fi)
	}
	remaining := len(r.data) - r.pos
	if remaining == 0 {
		r.EOFs++
		return 0, io.EOF
	}
	n := len(p)
	if r.plan.MaxPerCall > 0 && n > r.plan.MaxPerCall {
		n = r.plan.MaxPerCall
	}
	if n > remaining {
		n = remaining
	}
	// (boundaries are sorted: keep a cursor instead of scanning from the start,
	// so that the reader's own cost stays linear for documents of megabytes)
	for r.bidx < len(r.plan.Boundaries) && r.plan.Boundaries[r.bidx] <= r.pos {
		r.bidx++
	}
	if r.bidx < len(r.plan.Boundaries) {
		if b := r.plan.Boundaries[r.bidx]; b < r.pos+n {
			n = b - r.pos
		}
	}
	hit := false
	if fi >= 0 {
		f := r.plan.Faults[fi]
		if r.pos+n >= f.At {
			n = f.At - r.pos
			hit = f.WithData
		}
	}
	if n < len(p) && n < remaining {
		r.ShortReads++
	}
	copy(p, r.data[r.pos:r.pos+n])
	r.pos += n
	if r.plan.Scribble && n < len(p) {
		r.scribble(p[n:])
	}
	if hit {
		return n, r.fire(fi)
	}
	if r.pos == len(r.data) && r.plan.EOFWithData && r.nextFault() < 0 {
		r.EOFData++
		return n, io.EOF
	}
	return n, nil
}

func (r *SimReader) scribble(p []byte) {
	r.Scribbles++
	// the whole unused part for the first calls, then the 512 bytes next to the
	// data: overwriting a 32 KB buffer on each of a million one-byte reads
	// makes the simulated reader, not the library, the slow party
	if r.Scribbles > 64 && len(p) > 512 {
		p = p[:512]
	}
	for i := range p {
		p[i] = 0xA5
	}
}

// DrawReaderPlan draws a benign delivery plan (no faults, no cut) for n bytes.
// All-zero draws give "whole, as asked", i.e. the in-memory-like delivery.
func DrawReaderPlan(t *tape.Tape, n int) ReaderPlan {
	p := ReaderPlan{Cut: -1, ZeroBefore: map[int]int{}}
	if n > 1<<16 {
		// fragmentation is drawn for the first 64 KB only (the rest is
		// delivered as asked, or under the per-call cap): a plan must not cost
		// more choices than the document has kilobytes
		n = 1 << 16
	}
	mode := t.Intn("rd-mode", 7)
	p.EOFWithData = t.Bool("rd-eofdata")
	p.Scribble = t.Bool("rd-scribble")
	switch mode {
	case 0: // as asked
	case 1: // one byte per call
		p.MaxPerCall = 1
	case 2: // random fragments
		for off := 0; off < n; {
			off += 1 + t.Small("rd-frag", 24)
			if off < n {
				p.Boundaries = append(p.Boundaries, off)
			}
		}
	case 3: // zero-length reads sprinkled, otherwise as asked
		k := 1 + t.Small("rd-nzero", 6)
		for i := 0; i < k; i++ {
			p.ZeroBefore[t.Intn("rd-zero-at", n+1)] = 1 + t.Intn("rd-zero-n", 2)
		}
	case 4: // one split point
		if n > 0 {
			p.Boundaries = []int{t.Intn("rd-split", n)}
		}
	case 6: // a few bytes per call, and an isolated (0,nil) read before every fragment:
		// hundreds of empty reads in one document, never two in a row
		p.MaxPerCall = 1 + t.Intn("rd-max", 3)
		for off := 0; off <= n; off++ {
			p.ZeroBefore[off] = 1 // (wherever a read starts)
		}
	case 5: // everything mixed
		p.MaxPerCall = t.Intn("rd-max", 5)
		for off := 0; off < n; {
			off += 1 + t.Small("rd-frag", 40)
			if off < n {
				p.Boundaries = append(p.Boundaries, off)
				if t.Chance("rd-zero", 1, 3) {
					p.ZeroBefore[off] = 1 + t.Intn("rd-zero-n", 2)
				}
			}
		}
		if t.Bool("rd-zero-eof") {
			p.ZeroBefore[n] = 1
		}
		if t.Bool("rd-zero-start") {
			p.ZeroBefore[0] = 1 + t.Intn("rd-zero-n", 2)
		}
	}
	return p
}

// ---------------------------------------------------------------------------
// Writer

type WriteFault struct {
	// exactly one of Call / Byte is >= 0
	Call      int  // fail the j-th call (0-based)
	Byte      int  // "disk full": fail the call that would take the total past Byte, accepting what fits
	Partial   bool // for Call faults: accept part of the data before failing
	Transient bool
}

type WriterPlan struct {
	Faults []WriteFault
}

// SimWriter implements io.Writer only.
type SimWriter struct {
	Buf   []byte
	plan  WriterPlan
	dead  error
	Calls int
	StringCalls int
	Fired int
	FiredKinds map[string]int
	done  map[int]bool
	// Sizes of each successful call, for the trace
	CallSizes []int
}

func NewWriter(plan WriterPlan) *SimWriter {
	return &SimWriter{plan: plan, FiredKinds: map[string]int{}, done: map[int]bool{}}
}

func (w *SimWriter) write(p []byte, str bool) (int, error) {
	yield("write")
	call := w.Calls
	w.Calls++
	if str {
		w.StringCalls++
	}
	if w.dead != nil {
		return 0, w.dead
	}
	for i, f := range w.plan.Faults {
		if w.done[i] {
			continue
		}
		accept := -1
		kind := ""
		if f.Call >= 0 && f.Call == call {
			accept = 0
			kind = "write-error"
			if f.Partial && len(p) > 1 {
				accept = len(p) / 2
				kind = "write-short-error"
			}
		} else if f.Call < 0 && f.Byte >= 0 && len(w.Buf)+len(p) > f.Byte {
			accept = f.Byte - len(w.Buf)
			if accept < 0 {
				accept = 0
			}
			kind = "disk-full"
		}
		if accept < 0 {
			continue
		}
		w.Buf = append(w.Buf, p[:accept]...)
		w.Fired++
		w.done[i] = true
		err := fmt.Errorf("%w (write call %d)", ErrInjected, call)
		if f.Transient {
			kind += "-transient"
		} else {
			w.dead = err
		}
		if str {
			kind += "-stringwriter"
		}
		w.FiredKinds[kind]++
		return accept, err
	}
	w.Buf = append(w.Buf, p...)
	w.CallSizes = append(w.CallSizes, len(p))
	return len(p), nil
}

func (w *SimWriter) Write(p []byte) (int, error) { return w.write(p, false) }

// SimStringWriter additionally implements io.StringWriter, which both codecs
// detect and use as a fast path.
type SimStringWriter struct{ SimWriter }

func NewStringWriter(plan WriterPlan) *SimStringWriter {
	return &SimStringWriter{SimWriter: *NewWriter(plan)}
}

func (w *SimStringWriter) WriteString(s string) (int, error) { return w.write([]byte(s), true) }

// W is what scenarios hold: either flavour.
type W interface {
	io.Writer
	Base() *SimWriter
}

func (w *SimWriter) Base() *SimWriter       { return w }
func (w *SimStringWriter) Base() *SimWriter { return &w.SimWriter }

func MakeWriter(stringFlavour bool, plan WriterPlan) W {
	if stringFlavour {
		return NewStringWriter(plan)
	}
	return NewWriter(plan)
}
