// Package tape is the single choice source of the simulator.
//
// Every decision of a run - generated documents and values, configurations,
// fault kinds and positions, fragment sizes, which simulated thread runs next -
// is drawn through Tape.Draw. In generation mode the tape is backed by a
// SplitMix64 PRNG derived from (seed, run index) and every draw is recorded. In
// replay mode it is backed by a recorded list of values; values are taken
// modulo the requested bound and an exhausted tape yields 0, which every
// generator treats as "the simplest choice". A run is therefore a pure function
// of its tape and the code under test.
package tape

import "math/bits"

type Entry struct {
	L string `json:"l"` // label (informational, never influences the value)
	N uint64 `json:"n"` // bound the value was drawn under (0 = full 64 bit)
	V uint64 `json:"v"`
}

type Tape struct {
	replay  bool
	state   uint64
	in      []uint64
	pos     int
	Rec     []Entry
	NoRec   bool // set for very long runs that are never shrunk
	Overrun int  // draws taken after a replay tape was exhausted
	Sink    func(v uint64) // optional: called with every drawn value (crash-safe tape recording)
}

func mix(z uint64) uint64 {
	z = (z ^ (z >> 30)) * 0xbf58476d1ce4e5b9
	z = (z ^ (z >> 27)) * 0x94d049bb133111eb
	return z ^ (z >> 31)
}

// New returns a generating tape for (seed, run).
func New(seed uint64, run uint64) *Tape {
	s := mix(seed*0x9e3779b97f4a7c15+0x1234567) ^ mix(run+0x51ed27)*0x9e3779b97f4a7c15
	return &Tape{state: s}
}

// Replay returns a tape that replays the given values.
func Replay(vals []uint64) *Tape {
	return &Tape{replay: true, in: vals}
}

func (t *Tape) IsReplay() bool { return t.replay }

func (t *Tape) next() uint64 {
	t.state += 0x9e3779b97f4a7c15
	return mix(t.state)
}

// Draw returns a value in [0,n). n == 0 means the full 64-bit range.
func (t *Tape) Draw(label string, n uint64) uint64 {
	var v uint64
	if t.replay {
		if t.pos < len(t.in) {
			v = t.in[t.pos]
			t.pos++
		} else {
			t.Overrun++
		}
		if n != 0 {
			v %= n
		}
	} else {
		v = t.next()
		if n != 0 {
			// multiply-shift: unbiased enough, and monotone in the raw value
			hi, _ := bits.Mul64(v, n)
			v = hi
		}
	}
	if !t.NoRec {
		t.Rec = append(t.Rec, Entry{label, n, v})
	}
	if t.Sink != nil {
		t.Sink(v)
	}
	return v
}

func (t *Tape) Intn(label string, n int) int {
	if n <= 1 {
		// still consume a draw so that tape positions do not depend on bounds
		t.Draw(label, 1)
		return 0
	}
	return int(t.Draw(label, uint64(n)))
}

// Range returns a value in [lo,hi].
func (t *Tape) Range(label string, lo, hi int) int {
	if hi < lo {
		hi = lo
	}
	return lo + t.Intn(label, hi-lo+1)
}

func (t *Tape) Bool(label string) bool { return t.Draw(label, 2) == 1 }

// Chance is true with probability num/den; 0 (replay default) is false.
func (t *Tape) Chance(label string, num, den int) bool {
	return int(t.Draw(label, uint64(den))) >= den-num
}

// Small draws a small non-negative integer biased towards 0: used for lengths.
func (t *Tape) Small(label string, max int) int {
	if max <= 0 {
		t.Draw(label, 1)
		return 0
	}
	// two-stage: pick a magnitude class, then a value in it
	v := int(t.Draw(label, uint64(max+1)*4))
	switch v & 3 {
	case 0:
		return (v >> 2) % 2 % (max + 1)
	case 1:
		return (v >> 2) % 5 % (max + 1)
	case 2:
		return (v >> 2) % 17 % (max + 1)
	}
	return (v >> 2) % (max + 1)
}

func (t *Tape) Bytes(label string, n int) []byte {
	b := make([]byte, n)
	for i := 0; i < n; {
		v := t.Draw(label, 0)
		for k := 0; k < 8 && i < n; k++ {
			b[i] = byte(v >> (8 * uint(k)))
			i++
		}
	}
	return b
}

func (t *Tape) U64(label string) uint64 { return t.Draw(label, 0) }

// Values returns the recorded values (the normative part of a replay file).
func (t *Tape) Values() []uint64 {
	out := make([]uint64, len(t.Rec))
	for i, e := range t.Rec {
		out[i] = e.V
	}
	return out
}
