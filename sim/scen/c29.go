package scen

import (
	"fmt"

	"github.com/kstenerud/go-concise-encoding/ce"
	"github.com/kstenerud/go-concise-encoding/ce/events"

	"verifsim/gen"
	"verifsim/simio"
)

// C29: an I/O failure of the destination writer or a non-EOF failure of the
// source reader always makes the call return an error (low-level encoder
// events: not return normally); never success, never an escaped panic.
//
// Fault enumeration: for each generated value/document every position of a
// single fault is tried - every writer call index, every "disk full" byte
// count, both writer flavours; every reader byte offset as (0,err) and as
// (m>0,err) - followed by drawn multi-fault sequences.

func init() { Registry["C29"] = runC29 }

type c29Scenario struct {
	Direction string      `json:"direction"`
	Format    string      `json:"format"`
	Entry     string      `json:"entry"`
	Cfg       CfgDesc     `json:"config"`
	Value     string      `json:"value_type,omitempty"`
	DocHex    string      `json:"doc_hex,omitempty"`
	Events    []string    `json:"events,omitempty"`
	Fault     interface{} `json:"failing_fault,omitempty"`
	Calls     int         `json:"fault_free_writer_calls,omitempty"`
	Bytes     int         `json:"fault_free_bytes,omitempty"`
}

func runC29(e *Env) Outcome {
	switch e.T.Intn("direction", 3) {
	case 0:
		return c29Marshal(e)
	case 1:
		return c29Unmarshal(e)
	}
	return c29Encoder(e)
}

func writerFaultFeatures(f simio.WriteFault, stringFlavour bool, w *simio.SimWriter) map[string]bool {
	return map[string]bool{
		"fail-call":         f.Call >= 0 && !f.Partial,
		"short-write":       f.Call >= 0 && f.Partial,
		"disk-full":         f.Call < 0,
		"transient":         f.Transient,
		"stringwriter-path": w.StringCalls > 0,
	}
}

func c29Marshal(e *Env) Outcome {
	t := e.T
	f := gen.Format(t.Intn("format", 2))
	cfgd := DrawCfg(t, false)
	cfgd.Recursion = t.Bool("cfg-recursion")
	cfg := cfgd.Build()
	vo := gen.DrawValOpts(t)
	val := gen.DrawValue(t, vo)
	useMarshaler := t.Bool("via-marshaler")
	entry := "Marshal" + map[gen.Format]string{gen.CBE: "CBE", gen.CTE: "CTE"}[f]
	if useMarshaler {
		entry = map[gen.Format]string{gen.CBE: "CBE", gen.CTE: "CTE"}[f] + "Marshaler.Marshal(reused)"
	}
	sc := &c29Scenario{Direction: "marshal", Format: f.String(), Entry: entry, Cfg: cfgd, Value: val.Desc}
	sig := Hash("c29m", val.Desc, f, cfgd, useMarshaler)

	call := func(w simio.W) (err error, p *PanicInfo) {
		p = e.Op(entry, func() {
			switch {
			case useMarshaler:
				// a marshaler that has already completed one document
				var m ce.Marshaler
				if f == gen.CBE {
					m = ce.NewCBEMarshaler(cfg)
				} else {
					m = ce.NewCTEMarshaler(cfg)
				}
				if err = m.Marshal(val.V, simio.NewWriter(simio.WriterPlan{})); err != nil {
					return
				}
				err = m.Marshal(val.V, w)
			case f == gen.CBE:
				err = ce.MarshalCBE(val.V, w, cfg)
			default:
				err = ce.MarshalCTE(val.V, w, cfg)
			}
		})
		return
	}
	// fault-free control, both flavours
	var n [2]int
	var size [2]int
	for fl := 0; fl < 2; fl++ {
		w := simio.MakeWriter(fl == 1, simio.WriterPlan{})
		err, p := call(w)
		e.Seen(false, "control")
		if p != nil {
			e.Fail("panic-escaped", fmt.Sprintf("entry=%s site=%s", entry, p.Frame), p.Value)
			return e.Finish(sig, nil, sc)
		}
		if err != nil {
			// the value is not marshalable under this configuration: nothing to enumerate
			e.Count("controls_rejected", 1)
			return e.Finish(sig, nil, sc)
		}
		n[fl], size[fl] = w.Base().Calls, len(w.Base().Buf)
	}
	sc.Calls, sc.Bytes = n[0], size[0]
	e.Count("values", 1)
	sig = Hash(sig, sc.Calls, sc.Bytes)

	try := func(fl int, wf simio.WriteFault, extra ...simio.WriteFault) bool {
		plan := simio.WriterPlan{Faults: append([]simio.WriteFault{wf}, extra...)}
		w := simio.MakeWriter(fl == 1, plan)
		err, p := call(w)
		b := w.Base()
		e.Seen(b.Fired > 0, sig, fl, wf, len(extra))
		e.Count("writer_calls", b.Calls)
		e.CountMap("fault:", b.FiredKinds)
		feat := writerFaultFeatures(wf, fl == 1, b)
		feat["multi-fault"] = len(extra) > 0
		loc := fmt.Sprintf("entry=%s format=%s features=%s", entry, f, Features(feat))
		if p != nil {
			sc.Fault = plan
			e.Fail("panic-escaped", fmt.Sprintf("entry=%s site=%s", entry, p.Frame), p.Value)
			return false
		}
		if b.Fired > 0 && err == nil {
			sc.Fault = plan
			e.Fail("silent-success", loc, fmt.Sprintf("writer failed %d time(s) (%v) but the call returned nil", b.Fired, b.FiredKinds))
			return false
		}
		if b.Fired == 0 && err != nil {
			sc.Fault = plan
			e.Fail("spurious-error", loc, fmt.Sprintf("no fault fired but the call returned %v", err))
			return false
		}
		if b.Fired == 0 {
			e.Count("fault_positions_not_reached", 1)
		}
		return true
	}
	for fl := 0; fl < 2; fl++ {
		for j := 0; j <= n[fl]; j++ {
			if !try(fl, simio.WriteFault{Call: j, Byte: -1}) || !try(fl, simio.WriteFault{Call: j, Byte: -1, Partial: true}) {
				return e.Finish(sig, nil, sc)
			}
		}
		step := 1
		if size[fl] > 400 && !e.Thorough() {
			step = size[fl] / 400
		}
		for k := 0; k < size[fl]; k += step {
			if !try(fl, simio.WriteFault{Call: -1, Byte: k}) {
				return e.Finish(sig, nil, sc)
			}
		}
		// the last position: exactly full is not a failure
		if !try(fl, simio.WriteFault{Call: -1, Byte: size[fl]}) {
			return e.Finish(sig, nil, sc)
		}
	}
	// multi-fault sequences: transient first, then another fault later
	for i := 0; i < 6; i++ {
		fl := t.Intn("mf-flavour", 2)
		j := t.Intn("mf-call", n[fl]+1)
		first := simio.WriteFault{Call: j, Byte: -1, Transient: true, Partial: t.Bool("mf-partial")}
		second := simio.WriteFault{Call: j + 1 + t.Intn("mf-gap", 4), Byte: -1}
		if t.Bool("mf-second-diskfull") {
			second = simio.WriteFault{Call: -1, Byte: t.Intn("mf-byte", size[fl]+1)}
		}
		if !try(fl, first, second) {
			return e.Finish(sig, nil, sc)
		}
	}
	return e.Finish(sig, sc, sc)
}

func readerFaultFeatures(rf simio.ReadFault, r *simio.SimReader, docLen int) map[string]bool {
	return map[string]bool{
		"error-with-data": rf.WithData && rf.At > 0,
		"fault-at-eof":    rf.At >= docLen,
		"fault-at-start":  rf.At == 0,
		"transient":       rf.Transient,
		"then-eof":        rf.ThenEOF,
	}
}

func c29Unmarshal(e *Env) Outcome {
	t := e.T
	f := gen.Format(t.Intn("format", 2))
	cfgd := DrawCfg(t, false)
	cfg := cfgd.Build()
	o := gen.DrawOpts(t)
	doc, rej := gen.DrawDoc(t, f, o, cfg)
	e.Count("generator_rejects", rej)
	entries := EntriesFor(f)
	en := entries[t.Intn("entry", len(entries))]
	withRules := t.Bool("decoder-rules")
	sc := &c29Scenario{Direction: "unmarshal", Format: f.String(), Entry: en.String(), Cfg: cfgd, DocHex: fmt.Sprintf("%x", doc.Bytes)}
	sig := Hash("c29u", doc.Bytes, en, cfgd, withRules)

	// control
	ctl := CallStream(e, en, simio.NewReader(doc.Bytes, simio.ReaderPlan{Cut: -1}), nil, cfg, withRules, "")
	e.Seen(false, "control")
	if ctl.Panic != nil {
		e.Fail("panic-escaped", fmt.Sprintf("entry=%s site=%s", en, ctl.Panic.Frame), ctl.Panic.Value)
		return e.Finish(sig, nil, sc)
	}
	if ctl.Err != nil {
		e.Count("controls_rejected", 1)
		return e.Finish(sig, nil, sc)
	}
	e.Count("documents", 1)

	try := func(base simio.ReaderPlan, faults ...simio.ReadFault) bool {
		plan := base
		plan.Cut = -1
		plan.Faults = faults
		r := simio.NewReader(doc.Bytes, plan)
		got := CallStream(e, en, r, nil, cfg, withRules, "")
		e.Seen(r.Fired > 0, sig, faults, plan.MaxPerCall, plan.EOFWithData, plan.Boundaries)
		e.Count("reader_calls", r.Calls)
		e.CountMap("fault:", r.FiredKinds)
		feat := readerFaultFeatures(faults[0], r, len(doc.Bytes))
		feat["multi-fault"] = len(faults) > 1
		loc := fmt.Sprintf("entry=%s format=%s features=%s", en, f, Features(feat))
		if got.Panic != nil {
			sc.Fault = plan
			e.Fail("panic-escaped", fmt.Sprintf("entry=%s site=%s", en, got.Panic.Frame), got.Panic.Value)
			return false
		}
		if r.Fired > 0 && got.Err == nil {
			sc.Fault = plan
			e.Fail("silent-success", loc, fmt.Sprintf("reader failed %d time(s) (%v) but the call returned nil", r.Fired, r.FiredKinds))
			return false
		}
		if r.Fired == 0 && got.Err != nil {
			sc.Fault = plan
			e.Fail("spurious-error", loc, fmt.Sprintf("no fault fired but the call returned %v", got.Err))
			return false
		}
		if r.Fired == 0 {
			e.Count("fault_positions_not_reached", 1)
		}
		return true
	}
	bases := []simio.ReaderPlan{{}, {MaxPerCall: 1}, simio.DrawReaderPlan(t, len(doc.Bytes))}
	for bi, base := range bases {
		step := 1
		if len(doc.Bytes) > 300 && !e.Thorough() {
			step = len(doc.Bytes) / 300
		}
		for k := 0; k <= len(doc.Bytes); k += step {
			if !try(base, simio.ReadFault{At: k}) || !try(base, simio.ReadFault{At: k, WithData: true}) {
				return e.Finish(sig, nil, sc)
			}
			if bi == 0 && !try(base, simio.ReadFault{At: k, Transient: true}) {
				return e.Finish(sig, nil, sc)
			}
			// sources that are not sticky: the error comes once (with or without
			// data), then the source delivers the rest, or looks finished
			if bi != 1 && (!try(base, simio.ReadFault{At: k, WithData: true, Transient: true}) ||
				!try(base, simio.ReadFault{At: k, WithData: true, ThenEOF: true}) || !try(base, simio.ReadFault{At: k, ThenEOF: true})) {
				return e.Finish(sig, nil, sc)
			}
		}
		if !try(base, simio.ReadFault{At: len(doc.Bytes)}) || !try(base, simio.ReadFault{At: len(doc.Bytes), WithData: true}) {
			return e.Finish(sig, nil, sc)
		}
	}
	for i := 0; i < 6; i++ {
		a := t.Intn("mf-at", len(doc.Bytes)+1)
		first := simio.ReadFault{At: a, Transient: true, WithData: t.Bool("mf-withdata")}
		second := simio.ReadFault{At: a + t.Intn("mf-gap", 8), WithData: t.Bool("mf-withdata2")}
		if second.At > len(doc.Bytes) {
			second.At = len(doc.Bytes)
		}
		if !try(bases[2], first, second) {
			return e.Finish(sig, nil, sc)
		}
	}
	return e.Finish(sig, sc, sc)
}

// c29Encoder drives the low-level encoder API: methods have no error result,
// so the documented report of a write failure is a panic carrying the error.
func c29Encoder(e *Env) Outcome {
	t := e.T
	f := gen.Format(t.Intn("format", 2))
	cfgd := DrawCfg(t, false)
	cfg := cfgd.Build()
	o := gen.DrawOpts(t)
	doc, rej := gen.DrawDoc(t, f, o, cfg)
	e.Count("generator_rejects", rej)
	entry := map[gen.Format]string{gen.CBE: "CBEEncoder", gen.CTE: "CTEEncoder"}[f] + ".On*"
	sc := &c29Scenario{Direction: "encode-events", Format: f.String(), Entry: entry, Cfg: cfgd}
	sig := Hash("c29e", doc.Bytes, cfgd)
	mk := func(w simio.W) events.DataEventReceiver {
		var enc ce.Encoder
		if f == gen.CBE {
			enc = ce.NewCBEEncoder(cfg)
		} else {
			enc = ce.NewCTEEncoder(cfg)
		}
		enc.PrepareToEncode(w)
		return enc
	}
	// control: count calls
	var n, size [2]int
	for fl := 0; fl < 2; fl++ {
		w := simio.MakeWriter(fl == 1, simio.WriterPlan{})
		var err error
		p := e.Op(entry, func() { _, err = gen.Feed(doc.Events, mk(w), nil) })
		e.Seen(false, "control")
		if p != nil || err != nil {
			e.Count("controls_rejected", 1)
			return e.Finish(sig, nil, sc)
		}
		n[fl], size[fl] = w.Base().Calls, len(w.Base().Buf)
	}
	sc.Calls, sc.Bytes = n[0], size[0]
	e.Count("event_streams", 1)
	try := func(fl int, wf simio.WriteFault) bool {
		plan := simio.WriterPlan{Faults: []simio.WriteFault{wf}}
		w := simio.MakeWriter(fl == 1, plan)
		b := w.Base()
		silentAt := -1
		var enc events.DataEventReceiver
		p := e.Op(entry, func() {
			enc = mk(w)
			for i, ev := range doc.Events {
				before := b.Fired
				err := gen.Try(func() { ev.Send(enc) })
				if b.Fired > before && err == nil {
					silentAt = i
					return
				}
				if err != nil {
					return
				}
			}
		})
		e.Seen(b.Fired > 0, sig, fl, wf)
		e.Count("writer_calls", b.Calls)
		e.CountMap("fault:", b.FiredKinds)
		if p != nil {
			sc.Fault = plan
			e.Fail("panic-escaped", fmt.Sprintf("entry=%s site=%s", entry, p.Frame), p.Value)
			return false
		}
		if silentAt >= 0 {
			sc.Fault = plan
			sc.Events = []string{doc.Events[silentAt].String()}
			e.Fail("silent-success", fmt.Sprintf("entry=%s format=%s features=%s", entry, f, Features(writerFaultFeatures(wf, fl == 1, b))),
				fmt.Sprintf("event %d (%s) returned normally although the writer failed during it", silentAt, doc.Events[silentAt].K))
			return false
		}
		return true
	}
	for fl := 0; fl < 2; fl++ {
		for j := 0; j <= n[fl]; j++ {
			if !try(fl, simio.WriteFault{Call: j, Byte: -1}) || !try(fl, simio.WriteFault{Call: j, Byte: -1, Partial: true}) {
				return e.Finish(sig, nil, sc)
			}
		}
		step := 1
		if size[fl] > 300 && !e.Thorough() {
			step = size[fl] / 300
		}
		for k := 0; k <= size[fl]; k += step {
			if !try(fl, simio.WriteFault{Call: -1, Byte: k}) {
				return e.Finish(sig, nil, sc)
			}
		}
	}
	return e.Finish(sig, sc, sc)
}
