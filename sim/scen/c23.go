package scen

import (
	"bytes"
	"fmt"

	"github.com/kstenerud/go-concise-encoding/ce"
	"github.com/kstenerud/go-concise-encoding/ce/events"

	"verifsim/gen"
	"verifsim/rec"
	"verifsim/simio"
)

// C23: the CTE text the encoder produces for an event stream does not change
// when array or string data is chunked differently or split across more data
// events. (Second sentence, checked as a by-product: decoding encoder-produced
// CTE and encoding it again reproduces the text.)
//
// Schedule space: a streaming producer's flush schedule - chunk boundaries and
// the split of each chunk's bytes over OnArrayData calls, including splits
// inside elements and inside multi-byte characters, and zero-length chunks.
// Reference: the same stream with every array delivered as one whole event.

func init() { Registry["C23"] = runC23 }

type c23Scenario struct {
	Cfg       CfgDesc  `json:"config"`
	Rules     bool     `json:"validator_in_front"`
	Events    []string `json:"events_reference_form"`
	Reference string   `json:"reference_text,omitempty"`
	Variant   []string `json:"failing_variant_events,omitempty"`
	Got       string   `json:"failing_variant_text,omitempty"`
}

func renderItems(items []gen.Item, form func(i int, a gen.Array) []rec.Ev) []rec.Ev {
	var out []rec.Ev
	for i, it := range items {
		if it.Arr == nil {
			out = append(out, it.Ev)
			continue
		}
		out = append(out, form(i, *it.Arr)...)
	}
	return out
}

func encodeCTE(e *Env, evs []rec.Ev, cfgd CfgDesc, withRules bool, name string) (text []byte, err error, p *PanicInfo) {
	cfg := cfgd.Build()
	w := simio.NewWriter(simio.WriterPlan{})
	p = e.Op(name, func() {
		enc := ce.NewCTEEncoder(cfg)
		enc.PrepareToEncode(w)
		var r events.DataEventReceiver = enc
		if withRules {
			r = ce.NewRules(enc, cfg)
		}
		_, err = gen.Feed(evs, r, nil)
	})
	return w.Buf, err, p
}

func chunkingFeatures(a gen.Array, ck gen.Chunking) map[string]bool {
	f := map[string]bool{}
	if len(ck.Chunks) > 1 {
		f["multi-chunk"] = true
	}
	eb := 1
	if a.Kind == rec.KArrayBegin && !stringLike(a) && a.AT != events.ArrayTypeBit {
		eb = a.AT.ElementSize() / 8
	}
	off := 0
	for _, c := range ck.Chunks {
		if c.Bytes == 0 {
			f["zero-length-chunk"] = true
		}
		if len(c.Splits) > 1 {
			f["multi-data-event"] = true
		}
		for _, s := range c.Splits {
			if s == 0 {
				f["empty-data-event"] = true
			}
			off += s
			if eb > 1 && off%eb != 0 {
				f["split-in-element"] = true
			}
			if stringLike(a) && off < len(a.Payload) && a.Payload[off]&0xc0 == 0x80 {
				f["split-in-char"] = true
			}
		}
	}
	return f
}

func runC23(e *Env) Outcome {
	t := e.T
	cfgd := CfgDesc{EnforceRules: true}
	o := gen.DrawOpts(t)
	o.ASCIIMedia = true
	o.ArrayBias = true
	o.TopContainer = true
	if o.MaxArray < 16 {
		o.MaxArray = 16
	}
	if t.Chance("long-arrays", 1, 6) {
		// arrays of a few KB: chunks longer than any internal pre-sizing threshold
		o.MaxArray = 2600
	}
	cfg := cfgd.Build()
	var evs []rec.Ev
	rejects := 0
	for try := 0; try < 6; try++ {
		evs = gen.Stream(t, o)
		if gen.RulesValid(evs, cfg) {
			break
		}
		rejects++
		evs = nil
	}
	e.Count("generator_rejects", rejects)
	if evs == nil {
		return e.Finish(0, nil, nil)
	}
	items := gen.SplitArrays(evs)
	narr := 0
	for _, it := range items {
		if it.Arr != nil {
			narr++
		}
	}
	withRules := t.Bool("validator-in-front")
	refEvs := renderItems(items, func(_ int, a gen.Array) []rec.Ev { return gen.WholeArray(a) })
	sc := &c23Scenario{Cfg: cfgd, Rules: withRules, Events: clipStrings(rec.Strings(refEvs), 80)}
	sig := Hash("c23", rec.Join(refEvs), withRules)
	e.Phase("ref")
	ref, rerr, rp := encodeCTE(e, refEvs, cfgd, withRules, "ref:CTEEncoder.On*")
	e.Phase("main")
	if rerr != nil || rp != nil {
		e.Count("reference_unusable", 1)
		return e.Finish(sig, nil, sc)
	}
	e.Count("streams", 1)
	e.Count("arrays", narr)
	sc.Reference = clip(string(ref))

	variant := func(name string, form func(i int, a gen.Array) []rec.Ev, feat map[string]bool) bool {
		v := renderItems(items, form)
		got, err, p := encodeCTE(e, v, cfgd, withRules, "CTEEncoder.On*")
		nontrivial := false
		for k, on := range feat {
			if on && k != "one-chunk" {
				nontrivial = true
			}
		}
		e.Seen(nontrivial, sig, rec.Join(v))
		e.Count("data_events", countKind(v, rec.KArrayData))
		for k, on := range feat {
			if on {
				e.Count("delivery:"+k, 1)
			}
		}
		loc := fmt.Sprintf("features=%s", Features(feat))
		if p != nil {
			sc.Variant = clipStrings(rec.Strings(v), 80)
			e.Fail("panic-escaped", fmt.Sprintf("entry=CTEEncoder site=%s", p.Frame), p.Value)
			return e.FailureBudgetLeft()
		}
		if err != nil {
			if !e.Failed() {
				sc.Variant = clipStrings(rec.Strings(v), 80)
			}
			e.Fail("result-mismatch", loc, fmt.Sprintf("reference stream encodes, this delivery of the same data is rejected: %v", err))
			return e.FailureBudgetLeft()
		}
		if !bytes.Equal(got, ref) {
			if !e.Failed() {
				sc.Variant = clipStrings(rec.Strings(v), 80)
				sc.Got = clip(string(got))
			}
			e.Fail("result-mismatch", loc, fmt.Sprintf("text differs: reference %q, this delivery %q", clip(string(ref)), clip(string(got))))
			return e.FailureBudgetLeft()
		}
		return true
	}

	if narr == 0 {
		// nothing to re-chunk: a control
		e.Seen(false, sig, "no-arrays")
	} else {
		if !variant("one-chunk", func(_ int, a gen.Array) []rec.Ev { return gen.ChunkedArray(a, gen.OneChunk(a)) }, map[string]bool{"one-chunk": true}) {
			return e.Finish(sig, nil, sc)
		}
		nv := 6
		if e.Thorough() {
			nv = 14
		}
		for i := 0; i < nv; i++ {
			aligned := i%2 == 0
			feat := map[string]bool{}
			cks := map[int]gen.Chunking{}
			for j, it := range items {
				if it.Arr != nil {
					ck := gen.DrawChunking(t, *it.Arr, aligned)
					cks[j] = ck
					for k, v := range chunkingFeatures(*it.Arr, ck) {
						if v {
							feat[k] = true
						}
					}
				}
			}
			if !variant("drawn", func(j int, a gen.Array) []rec.Ev { return gen.ChunkedArray(a, cks[j]) }, feat) {
				return e.Finish(sig, nil, sc)
			}
		}
		// one byte per data event
		if !variant("bytewise", func(_ int, a gen.Array) []rec.Ev {
			ck := gen.OneChunk(a)
			if len(a.Payload) > 0 {
				ck.Chunks[0].Splits = make([]int, len(a.Payload))
				for i := range ck.Chunks[0].Splits {
					ck.Chunks[0].Splits[i] = 1
				}
			}
			return gen.ChunkedArray(a, ck)
		}, map[string]bool{"one-byte-per-data-event": true, "multi-data-event": true}) {
			return e.Finish(sig, nil, sc)
		}
	}

	// by-product: decode the reference text and encode it again
	rc := &rec.Recorder{}
	var derr error
	dp := e.Op("CTEDecoder.DecodeDocument", func() { derr = ce.NewCTEDecoder(cfg).DecodeDocument(ref, rc) })
	if dp == nil && derr == nil {
		again, err2, p2 := encodeCTE(e, rc.Evs, cfgd, false, "CTEEncoder.On*")
		e.Seen(false, sig, "reencode")
		e.Count("reencode_checks", 1)
		// The second sentence of the property is a pure function of the input
		// (no schedule or fault in it): it is observed and counted here, not
		// decided - see DESIGN.md 5.7. Differences seen on the pinned tree all
		// come from non-canonical source events (a big float/decimal event whose
		// value also fits the small type is written differently from the small
		// type the decoder produces).
		if p2 != nil || err2 != nil {
			e.Count("observed(second sentence, not decided): decoded events do not encode", 1)
		} else if !bytes.Equal(again, ref) {
			e.Count("observed(second sentence, not decided): re-encoded text differs at "+firstDifference(refEvs, rc.Evs), 1)
		}
	} else {
		e.Count("observed(second sentence, not decided): encoder output does not decode", 1)
	}
	return e.Finish(sig, sc, sc)
}

// firstDifference locates a decode/encode round-trip difference: the first item
// (chunking-independent) at which the events decoded from the encoder's text
// differ from the events that produced the text.
func firstDifference(src, dec []rec.Ev) string {
	a, b := gen.SplitArrays(src), gen.SplitArrays(dec)
	desc := func(it gen.Item) string {
		if it.Arr != nil {
			return "array:" + kindName(*it.Arr)
		}
		d := it.Ev.K.String()
		switch it.Ev.K {
		case rec.KBigDecimalFloat:
			if it.Ev.BDF.IsZero() {
				d += "(zero)"
			}
		case rec.KDecimalFloat:
			if it.Ev.DF.IsZero() {
				d += "(zero)"
			}
		}
		return d
	}
	same := func(x, y gen.Item) bool {
		if (x.Arr == nil) != (y.Arr == nil) {
			return false
		}
		if x.Arr != nil {
			return kindName(*x.Arr) == kindName(*y.Arr) && string(x.Arr.Payload) == string(y.Arr.Payload) && x.Arr.Elems == y.Arr.Elems && x.Arr.Media == y.Arr.Media && x.Arr.Custom == y.Arr.Custom
		}
		return x.Ev.String() == y.Ev.String()
	}
	for i := 0; i < len(a) && i < len(b); i++ {
		if !same(a[i], b[i]) {
			return fmt.Sprintf("source-event=%s decoded-as=%s", desc(a[i]), desc(b[i]))
		}
	}
	if len(a) != len(b) {
		return "source-event=count-differs"
	}
	return "source-event=same-events-different-text"
}

func countKind(evs []rec.Ev, k rec.Kind) int {
	n := 0
	for _, e := range evs {
		if e.K == k {
			n++
		}
	}
	return n
}
