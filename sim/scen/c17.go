package scen

import (
	"bytes"
	"fmt"
	"hash/fnv"
	"strings"
	"time"

	"github.com/kstenerud/go-concise-encoding/builder"
	"github.com/kstenerud/go-concise-encoding/cbe"
	"github.com/kstenerud/go-concise-encoding/ce"
	"github.com/kstenerud/go-concise-encoding/ce/events"
	"github.com/kstenerud/go-concise-encoding/configuration"
	"github.com/kstenerud/go-concise-encoding/cte"
	"github.com/kstenerud/go-concise-encoding/iterator"
	"github.com/kstenerud/go-concise-encoding/rules"

	"verifsim/eq"
	"verifsim/gen"
	"verifsim/rec"
	"verifsim/sched"
	"verifsim/simio"
	"verifsim/tape"
)

// C17: separate marshalers, unmarshalers, encoders, decoders and validators -
// and sessions shared between them - may be used from many goroutines at once;
// each call returns what it returns when run alone, and no data race occurs.
//
// System under simulation: 2-6 simulated caller threads under the seeded
// serialising scheduler (package sched). Yield points: operation boundaries,
// every call into the simulated reader/writer, and the guarded hook sites in
// the two type-cache protocols. The worker is built with -race: the race
// detector is the run-time invariant checker over each simulated schedule.
// Reference: the same calls executed alone, on fresh instances and sessions,
// after the concurrent phase has been joined.

func init() { Registry["C17"] = runC17 }

type c17Op struct {
	Kind   string // marshal | unmarshal | decode | validate
	Format gen.Format
	Spec   int  // index into the run's value specs
	Shared bool // through the shared session (marshal: iterator session, unmarshal: builder session)
	Desc   string
}

type c17Result struct {
	ok  bool
	out []byte
	val interface{}
	evs []rec.Ev
	pan string
}

type c17Scenario struct {
	Threads  int        `json:"threads"`
	Share    string     `json:"shared"`
	Cfg      CfgDesc    `json:"config"`
	Bias     string     `json:"scheduler_bias"`
	Cold     bool       `json:"cold_package_state,omitempty"`
	Types    []string   `json:"value_types"`
	Plans    [][]string `json:"thread_plans"`
	Schedule []string   `json:"schedule,omitempty"`
	Race     string     `json:"race_report,omitempty"`
}

type valueSpec struct {
	draws []uint64
	vo    gen.ValOpts
	desc  string
	docs  [2][]byte // the value's CBE and CTE documents (made with a separate, fresh marshaler)
	obj   interface{} // one shared object for "same value marshaled by several threads"
	wrapOf *valueSpec // the type is a wrapper around this spec's type
	forced *gen.TypeSpec // the type was chosen, not drawn (a declared unsupported type)
}

func (s *valueSpec) build() gen.Val {
	if s.wrapOf != nil {
		return gen.DrawWrapper(tape.Replay(s.draws), s.wrapOf.build)
	}
	if s.forced != nil {
		return s.forced.NewValue(tape.Replay(s.draws))
	}
	return gen.DrawValue(tape.Replay(s.draws), s.vo)
}

func marshalShared(sess *iterator.Session, cfg *configuration.Configuration, f gen.Format, v interface{}, w simio.W) (err error) {
	defer func() {
		if r := recover(); r != nil {
			err = fmt.Errorf("%v", r)
		}
	}()
	var enc ce.Encoder
	if f == gen.CBE {
		enc = cbe.NewEncoder(cfg)
	} else {
		enc = cte.NewEncoder(cfg)
	}
	enc.PrepareToEncode(w)
	sess.NewIterator(enc).Iterate(v)
	return nil
}

func unmarshalShared(sess *builder.Session, cfg *configuration.Configuration, f gen.Format, r *simio.SimReader, template interface{}) (v interface{}, err error) {
	defer func() {
		if r := recover(); r != nil {
			err = fmt.Errorf("%v", r)
		}
	}()
	b := sess.NewBuilderFor(template)
	var rcv events.DataEventReceiver = rules.NewRules(b, cfg)
	var d ce.Decoder
	if f == gen.CBE {
		d = cbe.NewDecoder(cfg)
	} else {
		d = cte.NewDecoder(cfg)
	}
	err = d.Decode(r, rcv)
	if err != nil {
		rcv.OnError()
	}
	return b.GetBuiltObject(), err
}

// coldDocs: literal documents for decode operations in runs with cold
// package-level state (time zones by name, every number form, escapes, typed
// arrays, UIDs, markers and references, comments).
var coldDocs = []string{
	"c0\n[2000-01-01/09:31:44.901554212/Europe/Prague 04:00:00/Asia/Tokyo 1985-10-26/01:20:01.105/America/Los_Angeles 09:00:00/Local 2000-10-10/14:50:01.222/Europe/Milan]",
	"c0\n{\"a\" = 1 \"b\" = -0x1f \"c\" = 1.5e10 \"d\" = 0x1.8p4 \"e\" = 123456789012345678901234567890 \"f\" = null \"g\" = true}",
	"c0\n[\"line\\nbreak \\[1f600] tab\\t\" @u8x[01 02 ff] @i16[-1 2 300] @f32[1.5 -2.25] f1e2d3c4-b5a6-4789-8abc-def012345678]",
	"c0\n[&a:[1 2 3] $a &b:\"text\" $b /* comment */ // line\n 10:00:01.93/America/Los_Angeles]",
	"c0\n(\"root\" (\"child\" 1 2) 3)",
	"\x81\x00\x9a\x01\x83abc\x7c\x00\x00\x00\x00\x00\x00\x00\x9b",
}

var biasNames = []string{"uniform", "sticky", "switch-at-cache-miss", "round-robin", "starve-thread-0"}

func runC17(e *Env) Outcome {
	t := e.T
	nthreads := 2 + t.Intn("threads", 5)
	share := t.Intn("share", 4) // 0 package-level only, 1 iterator session, 2 builder session, 3 both
	cfgd := DrawCfg(t, false)
	cfgd.EnforceRules = true
	cfgd.Recursion = t.Bool("cfg-recursion")
	cfgd.CamelCase = t.Bool("cfg-camelcase")
	cfg := cfgd.Build()
	bias := t.Intn("bias", len(biasNames))
	shareObject := t.Chance("same-object", 1, 4)
	// Cold package-level state: in these runs NOTHING of the library runs before
	// the threads start (no documents prepared with a marshaler, no generated
	// event stream), so the first touch of every lazily filled package-level
	// table or cache happens inside the concurrent phase - provided the worker
	// process is fresh, which is why workers are restarted at short intervals.
	// Such runs consist of marshal operations only.
	cold := t.Chance("cold-package-state", 1, 3)
	if cold {
		e.Count("runs_with_cold_package_state", 1)
	}
	sc := &c17Scenario{Threads: nthreads, Cold: cold, Share: []string{"package-level state only", "one iterator.Session", "one builder.Session", "iterator.Session and builder.Session"}[share], Cfg: cfgd, Bias: biasNames[bias]}

	// value specs: the types several threads will need for the first time
	nspecs := 1 + t.Intn("nspecs", 2)
	specs := make([]*valueSpec, nspecs)
	for i := range specs {
		vo := gen.DrawValOpts(t)
		vo.Recursive = vo.Recursive || t.Bool("force-recursive")
		vo.Unsupported = t.Chance("unsupported", 1, 5)
		vo.NoCycles = !cfgd.Recursion
		// Related types: the second type may be built AROUND the first one
		// (fields before, a container of the first type, fields after), so that
		// one thread needs the inner type while another needs the type that
		// contains it.
		var wrapOf *valueSpec
		if i > 0 && t.Chance("wrap-first-type", 1, 2) {
			wrapOf = specs[0]
		}
		var forced *gen.TypeSpec
		if wrapOf == nil && t.Chance("declared-unsupported-type", 1, 8) {
			ts := gen.DeclaredUnsupported(t, vo)
			forced = &ts
		}
		start := len(t.Rec)
		var v gen.Val
		switch {
		case wrapOf != nil:
			v = gen.DrawWrapper(t, wrapOf.build)
			e.Count("runs_with_related_types", 1)
		case forced != nil:
			v = forced.NewValue(t)
		default:
			v = gen.DrawValue(t, vo)
		}
		sp := &valueSpec{vo: vo, desc: v.Desc, wrapOf: wrapOf, forced: forced}
		for _, r := range t.Rec[start:] {
			sp.draws = append(sp.draws, r.V)
		}
		// documents for the unmarshal direction, made by an unrelated fresh marshaler
		// (a failed marshal leaves a partial document, which is kept as an
		// invalid input - but not megabytes of it: a cyclic value fails only
		// at the depth limit, and every read is a scheduler step)
		for f := range sp.docs {
			if cold {
				break
			}
			var err error
			if f == 0 {
				sp.docs[f], err = ce.MarshalToCBEDocument(sp.build().V, cfg)
			} else {
				sp.docs[f], err = ce.MarshalToCTEDocument(sp.build().V, cfg)
			}
			if err != nil && len(sp.docs[f]) > 2048 {
				sp.docs[f] = sp.docs[f][:2048]
			}
		}
		sp.obj = sp.build().V
		specs[i] = sp
		sc.Types = append(sc.Types, v.Desc)
	}
	// an event stream for decode/validate operations
	o := gen.DrawOpts(t)
	streamDocs := [2]*gen.Doc{}
	for f := gen.CBE; f <= gen.CTE && !cold; f++ {
		d, rej := gen.DrawDoc(t, f, o, configurationDefault)
		e.Count("generator_rejects", rej)
		streamDocs[f] = d
	}

	// per-thread plans, all drawn before any thread starts
	plans := make([][]c17Op, nthreads)
	readerPlans := make([][]simio.ReaderPlan, nthreads)
	for i := range plans {
		nops := 1 + t.Intn("nops", 3)
		for j := 0; j < nops; j++ {
			op := c17Op{Format: gen.Format(t.Intn("op-format", 2)), Spec: t.Intn("op-spec", nspecs)}
			switch k := t.Intn("op-kind", 8); {
			case cold && k >= 4:
				// cold runs decode as well - documents from a pool of literals,
				// so that nothing of the library has run before the threads start
				op.Kind = "decode-literal"
				op.Spec = t.Intn("cold-doc", len(coldDocs))
			case k <= 3 || cold:
				op.Kind = "marshal"
				op.Shared = share == 1 || share == 3
			case k <= 5:
				op.Kind = "unmarshal"
				op.Shared = share == 2 || share == 3
			case k == 6:
				op.Kind = "decode"
			default:
				op.Kind = "validate"
			}
			op.Desc = fmt.Sprintf("%s(%s,spec%d,shared=%v)", op.Kind, op.Format, op.Spec, op.Shared)
			plans[i] = append(plans[i], op)
			readerPlans[i] = append(readerPlans[i], simio.DrawReaderPlan(t, 64))
		}
		var ds []string
		for _, op := range plans[i] {
			ds = append(ds, op.Desc)
		}
		sc.Plans = append(sc.Plans, ds)
	}
	sig := Hash("c17", nthreads, share, cfgd, fmt.Sprint(sc.Types), fmt.Sprint(sc.Plans), bias, shareObject)

	// the state under test: fresh (cold) sessions every run
	isess := iterator.NewSession(nil, cfg)
	bsess := builder.NewSession(nil, cfg)

	exec := func(op c17Op, rp simio.ReaderPlan, is *iterator.Session, bs *builder.Session, v interface{}) (res c17Result) {
		defer func() {
			if r := recover(); r != nil {
				res.pan = fmt.Sprint(r)
			}
		}()
		sp := specs[op.Spec]
		switch op.Kind {
		case "marshal":
			w := simio.NewWriter(simio.WriterPlan{})
			var err error
			switch {
			case op.Shared:
				err = marshalShared(is, cfg, op.Format, v, w)
			case op.Format == gen.CBE:
				err = ce.MarshalCBE(v, w, cfg)
			default:
				err = ce.MarshalCTE(v, w, cfg)
			}
			res.ok, res.out = err == nil, w.Buf
		case "unmarshal":
			doc := sp.docs[op.Format]
			rp.Cut = -1
			r := simio.NewReader(doc, rp)
			tmpl := sp.build().New()
			var err error
			switch {
			case op.Shared:
				res.val, err = unmarshalShared(bs, cfg, op.Format, r, tmpl)
			case op.Format == gen.CBE:
				res.val, err = ce.UnmarshalCBE(r, tmpl, cfg)
			default:
				res.val, err = ce.UnmarshalCTE(r, tmpl, cfg)
			}
			res.ok = err == nil
		case "decode-literal":
			rc := &rec.Recorder{}
			rp.Cut = -1
			doc := coldDocs[op.Spec]
			r := simio.NewReader([]byte(doc), rp)
			var err error
			if doc[0] == 'c' {
				err = ce.NewCTEDecoder(cfg).Decode(r, ce.NewRules(rc, cfg))
			} else {
				err = ce.NewCBEDecoder(cfg).Decode(r, ce.NewRules(rc, cfg))
			}
			res.ok, res.evs = err == nil, rc.Evs
		case "decode":
			rc := &rec.Recorder{}
			rp.Cut = -1
			r := simio.NewReader(streamDocs[op.Format].Bytes, rp)
			var err error
			if op.Format == gen.CBE {
				err = ce.NewCBEDecoder(cfg).Decode(r, rc)
			} else {
				err = ce.NewCTEDecoder(cfg).Decode(r, rc)
			}
			res.ok, res.evs = err == nil, rc.Evs
		case "validate":
			rc := &rec.Recorder{}
			_, err := gen.Feed(streamDocs[op.Format].Events, ce.NewRules(rc, cfg), func(int) { sched.Yield("event") })
			res.ok, res.evs = err == nil, rc.Evs
		}
		return
	}

	// concurrent phase ---------------------------------------------------
	results := make([][]c17Result, nthreads)
	values := make([][]interface{}, nthreads)
	for i := range plans {
		values[i] = make([]interface{}, len(plans[i]))
		for j, op := range plans[i] {
			if op.Kind == "marshal" {
				if shareObject {
					values[i][j] = specs[op.Spec].obj // read-only input shared by threads: ordinary use
				} else {
					values[i][j] = specs[op.Spec].build().V
				}
			}
		}
	}
	last := -1
	pick := func(runnable []*sched.Thread, prev *sched.Thread) int {
		n := len(runnable)
		idxOf := func(id int) int {
			for k, th := range runnable {
				if th.ID == id {
					return k
				}
			}
			return -1
		}
		choice := 0
		switch bias {
		case 0:
			choice = t.Intn("sched", n)
		case 1: // sticky: keep running the same thread 3 times out of 4
			if k := idxOf(last); k >= 0 && t.Chance("sched-switch", 3, 4) == false {
				choice = k
			} else {
				choice = t.Intn("sched", n)
			}
		case 2: // run a thread until it is about to generate a type (cache miss), then run the others
			k := idxOf(last)
			if k >= 0 && !strings.HasSuffix(runnable[k].LastSite, ":miss") && t.Chance("sched-switch", 1, 8) == false {
				choice = k
			} else {
				choice = t.Intn("sched", n)
				if n > 1 && choice == k {
					choice = (choice + 1) % n
				}
			}
		case 3:
			choice = 0
			for k, th := range runnable {
				if th.ID > last {
					choice = k
					break
				}
			}
			t.Intn("sched", 1)
		case 4: // starve thread 0 while anybody else can run
			choice = t.Intn("sched", n)
			if n > 1 && runnable[choice].ID == 0 && t.Chance("sched-unstarve", 1, 10) == false {
				choice = (choice + 1) % n
			}
		}
		last = runnable[choice].ID
		return choice
	}
	limit := 30 * time.Second
	if e.Thorough() {
		limit = 60 * time.Second
	}
	s := sched.New(pick, limit)
	s.MaxSteps = 20000
	for i := range plans {
		i := i
		results[i] = make([]c17Result, len(plans[i]))
		s.Add(func() {
			for j, op := range plans[i] {
				sched.Yield("op")
				results[i][j] = exec(op, readerPlans[i][j], isess, bsess, values[i][j])
			}
		})
	}
	simio.Yield, iterator.SimYield, builder.SimYield = sched.Yield, sched.Yield, sched.Yield
	NewRaceReports() // discard anything reported before this run
	verdict := s.Run()
	if verdict == "" {
		// (with stuck threads the pipes stay open: the worker exits anyway, and
		// a thread that moves after all must not die on a closed descriptor)
		s.Close()
	}
	simio.Yield, iterator.SimYield, builder.SimYield = nil, nil, nil

	// schedule statistics
	h := fnv.New64a()
	h.Write([]byte(strings.Join(s.Trace, " ")))
	e.Seen(len(s.Trace) > nthreads, "interleaving", h.Sum64())
	e.Count("scheduler_steps", len(s.Trace))
	if s.Capped {
		e.Count("runs_finished_unscheduled_after_step_cap", 1)
	}
	e.Count("probe:thread_blocked_in_library_sync", s.BlockedEvents)
	e.Count("probe:blocked_thread_released_later", s.Released)
	for _, st := range s.Trace {
		switch {
		case strings.HasSuffix(st, ":miss"):
			e.Count("probe:type_cache_miss_about_to_generate", 1)
		case strings.HasSuffix(st, ":stored"):
			e.Count("probe:generation_finished", 1)
		}
	}
	if shareObject {
		e.Count("probe:same_object_marshaled_by_several_threads", 1)
	}
	sc.Schedule = clipStrings(s.Trace, 400)

	if verdict != "" {
		site := FirstLibFrame(s.HungStack, false)
		e.Fail(verdict, fmt.Sprintf("entry=concurrent-phase site=%s", site), fmt.Sprintf("%s: thread %d stuck at %s; stack top: %s", verdict, s.HungThread.ID, s.HungThread.LastSite, strings.Join(firstLinesOf(s.HungStack, 8), " / ")))
		o := e.Finish(sig, nil, sc)
		o.MustExit = true
		return o
	}

	// invariant 1: no data race during this schedule
	for _, r := range NewRaceReports() {
		if !r.HasLibFrame() {
			e.Count("race_reports_without_library_frame(harness noise)", 1)
			continue
		}
		if sc.Race == "" {
			sc.Race = clip(r.Text)
		}
		e.Fail("data-race", r.Locator(), clip(r.Text))
	}

	// invariant 3: sequential equivalence, on fresh instances and sessions
	for i := range plans {
		for j, op := range plans[i] {
			var v interface{}
			if op.Kind == "marshal" {
				v = specs[op.Spec].build().V
			}
			e.Phase("ref")
			var ref c17Result
			p := e.Op("ref:"+op.Desc, func() {
				ref = exec(op, readerPlans[i][j], iterator.NewSession(nil, cfg), builder.NewSession(nil, cfg), v)
			})
			e.Phase("main")
			if p != nil {
				e.Count("reference_unusable", 1)
				continue
			}
			got := results[i][j]
			e.Count("operations", 1)
			why := ""
			switch {
			case got.pan != ref.pan && (got.pan == "") != (ref.pan == ""):
				why = fmt.Sprintf("panic differs: concurrent %q, alone %q", got.pan, ref.pan)
			case got.ok != ref.ok:
				why = fmt.Sprintf("error-ness differs: concurrent ok=%v, alone ok=%v", got.ok, ref.ok)
			case !got.ok:
				// Both calls failed. What a failed call left behind (bytes written
				// before the error, a partial value) is not part of what it
				// "returns": with an unsupported type it legitimately depends on
				// which caller happened to discover the type first.
			case !bytes.Equal(got.out, ref.out):
				why = fmt.Sprintf("bytes differ: concurrent %x, alone %x", clipBytes(got.out, 120), clipBytes(ref.out, 120))
			case rec.Join(got.evs) != rec.Join(ref.evs):
				why = "events differ"
			default:
				if ok, w := eq.Equal(got.val, ref.val); !ok {
					// Next to an error the value is "whatever was decoded so far":
					// nil and an untouched zero value both say "nothing".
					if !(!got.ok && eq.Emptyish(got.val) && eq.Emptyish(ref.val)) {
						why = "value differs: " + w
					}
				}
			}
			if why != "" {
				feat := map[string]bool{"shared-session": op.Shared, "same-object": shareObject && op.Kind == "marshal"}
				e.Fail("result-mismatch", fmt.Sprintf("op=%s features=%s", op.Kind, Features(feat)), fmt.Sprintf("thread %d op %d %s: %s", i, j, op.Desc, why))
			}
		}
	}
	return e.Finish(sig, sc, sc)
}

func firstLinesOf(s string, n int) []string {
	l := strings.Split(s, "\n")
	if len(l) > n {
		l = l[:n]
	}
	return l
}
