package scen

import (
	"fmt"
	"os"
	"sort"
	"strings"
)

// The race detector writes its reports to the file named by GORACE=log_path
// (suffix .<pid>). The worker reads what was appended during a run: with the
// serialising scheduler every report belongs to the schedule of that run and
// reappears when the tape is replayed in a fresh process.

type RaceReport struct {
	Frames [2]string // first library/dependency frame of each of the two accesses ("" if none)
	Text   string
}

type raceLog struct {
	path string
	off  int64
}

var theRaceLog *raceLog

func initRaceLog() {
	if theRaceLog != nil {
		return
	}
	prefix := os.Getenv("VERIF_RACE_LOG")
	if prefix == "" {
		theRaceLog = &raceLog{}
		return
	}
	theRaceLog = &raceLog{path: fmt.Sprintf("%s.%d", prefix, os.Getpid())}
}

// NewRaceReports returns the reports appended since the last call.
func NewRaceReports() []RaceReport {
	initRaceLog()
	l := theRaceLog
	if l.path == "" {
		return nil
	}
	f, err := os.Open(l.path)
	if err != nil {
		return nil
	}
	defer f.Close()
	st, err := f.Stat()
	if err != nil || st.Size() <= l.off {
		return nil
	}
	buf := make([]byte, st.Size()-l.off)
	n, _ := f.ReadAt(buf, l.off)
	l.off += int64(n)
	return parseRaceReports(string(buf[:n]))
}

func parseRaceReports(s string) []RaceReport {
	var out []RaceReport
	for _, blk := range strings.Split(s, "==================") {
		if !strings.Contains(blk, "WARNING: DATA RACE") {
			continue
		}
		r := RaceReport{Text: strings.TrimSpace(blk)}
		access := -1 // index of the access whose stack is being read; 2 = past both
		for _, line := range strings.Split(blk, "\n") {
			switch {
			case strings.HasPrefix(line, "Read at ") || strings.HasPrefix(line, "Write at ") || strings.HasPrefix(line, "Previous read at ") ||
				strings.HasPrefix(line, "Previous write at ") || strings.HasPrefix(line, "Atomic ") || strings.HasPrefix(line, "Previous atomic "):
				access++
			case strings.HasPrefix(line, "Goroutine "):
				access = 2
			case access >= 0 && access < 2 && strings.HasPrefix(line, "  ") && !strings.HasPrefix(line, "      "):
				fn := strings.TrimSpace(line)
				if i := strings.LastIndex(fn, "("); i > 0 {
					fn = fn[:i]
				}
				if r.Frames[access] == "" && isLibFrame(fn) {
					r.Frames[access] = strings.TrimPrefix(fn, "github.com/kstenerud/go-concise-encoding/")
				}
			}
		}
		out = append(out, r)
	}
	return out
}

func isLibFrame(fn string) bool {
	for _, p := range depPrefixes {
		if strings.HasPrefix(fn, p) {
			return true
		}
	}
	return strings.HasPrefix(fn, "math/big.") // caller data mutated through math/big on behalf of the library
}

func (r RaceReport) Locator() string {
	f := []string{r.Frames[0], r.Frames[1]}
	sort.Strings(f)
	return "frames=" + f[0] + "|" + f[1]
}

func (r RaceReport) HasLibFrame() bool { return r.Frames[0] != "" || r.Frames[1] != "" }
