package scen

import (
	"fmt"
	"io"

	"github.com/kstenerud/go-concise-encoding/ce"
	"github.com/kstenerud/go-concise-encoding/ce/events"
	"github.com/kstenerud/go-concise-encoding/configuration"

	"verifsim/gen"
	"verifsim/rec"
	"verifsim/tape"
)

// CfgDesc is the drawn library configuration in readable form.
type CfgDesc struct {
	EnforceRules bool   `json:"enforce_rules"`
	MaxArray     uint64 `json:"max_array_bytes,omitempty"`
	MaxDoc       uint64 `json:"max_doc_bytes,omitempty"`
	MaxDepth     uint64 `json:"max_depth,omitempty"`
	Recursion    bool   `json:"recursion_support,omitempty"`
	CamelCase    bool   `json:"camel_case,omitempty"`
}

func (d CfgDesc) Build() *configuration.Configuration {
	c := configuration.New()
	c.Marshal.EnforceRules = d.EnforceRules
	if d.MaxArray != 0 {
		c.Rules.MaxArraySizeBytes = d.MaxArray
	}
	if d.MaxDoc != 0 {
		c.Rules.MaxDocumentSizeBytes = d.MaxDoc
	}
	if d.MaxDepth != 0 {
		c.Rules.MaxContainerDepth = d.MaxDepth
	}
	c.Iterator.RecursionSupport = d.Recursion
	if d.CamelCase {
		c.Iterator.FieldNameStyle = configuration.FieldNameCamelCase
	}
	return c
}

// DrawCfg: swarm draw of the library configuration. All-zero = defaults with
// rules enforced.
func DrawCfg(t *tape.Tape, limits bool) CfgDesc {
	d := CfgDesc{EnforceRules: !t.Chance("cfg-norules", 1, 4)}
	if limits {
		d.MaxArray = []uint64{0, 0, 64, 1024, 65536}[t.Intn("cfg-maxarray", 5)]
		d.MaxDoc = []uint64{0, 0, 0, 50, 400}[t.Intn("cfg-maxdoc", 5)]
		d.MaxDepth = []uint64{0, 0, 3, 8}[t.Intn("cfg-maxdepth", 4)]
	}
	return d
}

// Entry identifies a public decode/unmarshal entry point.
type Entry int

const (
	EUnmarshalCBE Entry = iota
	EUnmarshalCTE
	EUnmarshalCE
	EDecodeCBE
	EDecodeCTE
	EDecodeCE
	NumEntries
)

var entryNames = [...]string{"UnmarshalCBE", "UnmarshalCTE", "UnmarshalCE", "CBEDecoder.Decode", "CTEDecoder.Decode", "CEDecoder.Decode"}

func (e Entry) String() string { return entryNames[e] }

func (e Entry) IsUnmarshal() bool { return e <= EUnmarshalCE }

// EntriesFor lists the entry points that accept a document of format f.
func EntriesFor(f gen.Format) []Entry {
	if f == gen.CBE {
		return []Entry{EUnmarshalCBE, EUnmarshalCE, EDecodeCBE, EDecodeCE}
	}
	return []Entry{EUnmarshalCTE, EUnmarshalCE, EDecodeCTE, EDecodeCE}
}

// Result of one decode/unmarshal call.
type Result struct {
	Err    error
	Value  interface{} // unmarshal entries
	Events []rec.Ev    // decode entries
	Panic  *PanicInfo
}

func (r Result) OK() bool { return r.Err == nil && r.Panic == nil }

// CallStream runs a reader entry point.
func CallStream(e *Env, en Entry, r io.Reader, template interface{}, cfg *configuration.Configuration, withRules bool, tag string) (res Result) {
	name := tag + en.String()
	switch en {
	case EUnmarshalCBE:
		res.Panic = e.Op(name, func() { res.Value, res.Err = ce.UnmarshalCBE(r, template, cfg) })
	case EUnmarshalCTE:
		res.Panic = e.Op(name, func() { res.Value, res.Err = ce.UnmarshalCTE(r, template, cfg) })
	case EUnmarshalCE:
		res.Panic = e.Op(name, func() { res.Value, res.Err = ce.UnmarshalCE(r, template, cfg) })
	case EDecodeCBE, EDecodeCTE, EDecodeCE:
		rc := &rec.Recorder{}
		var rcv events.DataEventReceiver = rc
		if withRules {
			rcv = ce.NewRules(rc, cfg)
		}
		var d ce.Decoder
		switch en {
		case EDecodeCBE:
			d = ce.NewCBEDecoder(cfg)
		case EDecodeCTE:
			d = ce.NewCTEDecoder(cfg)
		default:
			d = ce.NewCEDecoder(cfg)
		}
		res.Panic = e.Op(name, func() { res.Err = d.Decode(r, rcv) })
		res.Events = rc.Evs
	default:
		panic(fmt.Sprint("bad entry ", en))
	}
	return
}

// CallDocument runs the from-memory twin of an entry point.
func CallDocument(e *Env, en Entry, doc []byte, template interface{}, cfg *configuration.Configuration, withRules bool, tag string) (res Result) {
	name := tag + en.String() + "/doc"
	switch en {
	case EUnmarshalCBE:
		res.Panic = e.Op(name, func() { res.Value, res.Err = ce.UnmarshalFromCBEDocument(doc, template, cfg) })
	case EUnmarshalCTE:
		res.Panic = e.Op(name, func() { res.Value, res.Err = ce.UnmarshalFromCTEDocument(doc, template, cfg) })
	case EUnmarshalCE:
		res.Panic = e.Op(name, func() { res.Value, res.Err = ce.UnmarshalFromCEDocument(doc, template, cfg) })
	case EDecodeCBE, EDecodeCTE, EDecodeCE:
		rc := &rec.Recorder{}
		var rcv events.DataEventReceiver = rc
		if withRules {
			rcv = ce.NewRules(rc, cfg)
		}
		var d ce.Decoder
		switch en {
		case EDecodeCBE:
			d = ce.NewCBEDecoder(cfg)
		case EDecodeCTE:
			d = ce.NewCTEDecoder(cfg)
		default:
			d = ce.NewCEDecoder(cfg)
		}
		res.Panic = e.Op(name, func() { res.Err = d.DecodeDocument(doc, rcv) })
		res.Events = rc.Evs
	}
	return
}

var configurationDefault = configuration.New()

func ulebLen(v uint64) int {
	n := 1
	for v >= 0x80 {
		v >>= 7
		n++
	}
	return n
}

// lengthOffsets returns the byte offsets of the length fields the generator
// knows it wrote into a CBE document (array chunk headers, media type length,
// identifier lengths, big-int byte counts). It is derived from the event list
// and the recorded encoder offsets, not from parsing the document.
func lengthOffsets(d *gen.Doc) []int {
	if d.Format != gen.CBE {
		return nil
	}
	var out []int
	for i, ev := range d.Events {
		start := 0
		if i > 0 {
			start = d.Off[i-1]
		}
		end := d.Off[i]
		if end <= start {
			continue
		}
		switch ev.K {
		case rec.KArray, rec.KStringlikeArray:
			hdr := end - start - len(ev.S)
			l := ulebLen(ev.U << 1)
			if hdr >= 1+l {
				out = append(out, end-len(ev.S)-l)
			}
		case rec.KArrayChunk:
			more := uint64(0)
			if ev.B {
				more = 1
			}
			l := ulebLen(ev.U<<1 | more)
			if end-start >= l && !(end-start == 1 && !ev.B && l == 1 && i > 0 && d.Events[i-1].K == rec.KArrayBegin) {
				out = append(out, end-l)
			}
		case rec.KMedia, rec.KMediaBegin, rec.KMarker, rec.KRecordType:
			out = append(out, start+2)
		case rec.KReferenceLocal, rec.KRecord, rec.KCustomBinary, rec.KCustomBegin, rec.KBigInt:
			out = append(out, start+1)
		}
	}
	return out
}
