package scen

import (
	"fmt"
	"os"
	"runtime"
	"strings"
	"sync"

	"github.com/kstenerud/go-concise-encoding/ce"
	"github.com/kstenerud/go-concise-encoding/ce/events"
	"github.com/kstenerud/go-concise-encoding/configuration"

	"verifsim/gen"
	"verifsim/rec"
	"verifsim/simio"
	"verifsim/tape"
)

// C08: the memory a decoder allocates for a document is at most a fixed
// multiple of the document's length plus the configured maximum array size.
// (The time clause is not decided by this technique; a deterministic
// work-step bound - reader calls and delivered events per input byte - is
// checked as a proxy, CPU seconds are not measured.)
//
// Fault model: a stored document whose length fields were corrupted (the same
// storage faults as C07, aimed at every header that carries a length), plus
// adversarial families (nested container runs, many tiny tokens, chunk
// chains). Observed resource: the allocator (runtime.MemStats.TotalAlloc
// around exactly one decode call in an otherwise idle worker) and, under the
// worker's address-space cap, process survival.

func init() { Registry["C08"] = runC08 }

const (
	kCBE = 4096  // budget: bytes allocated per input byte, CBE (unmarshaling a list of one-byte integers really costs ~300 bytes per input byte)
	kCTE = 16384 // CTE: the ANTLR parse tree legitimately costs hundreds of bytes per input byte
	// additive slack: error paths, parser exceptions and lazily built prediction
	// caches cost up to a few hundred KiB regardless of the document; the
	// violations this property is about are tens of MiB to GiB
	cSlack = 4 << 20
)

type c08Scenario struct {
	Format   string               `json:"format"`
	Cfg      CfgDesc              `json:"config"`
	Entry    string               `json:"entry"`
	Family   string               `json:"document_family"`
	DocLen   int                  `json:"doc_len"`
	DocHex   string               `json:"doc_hex_prefix"`
	Faults   []simio.StorageFault `json:"storage_faults,omitempty"`
	Alloc    uint64               `json:"allocated_bytes"`
	Budget   uint64               `json:"budget_bytes"`
	Base     uint64               `json:"base_bytes"`
	Steps    int                  `json:"work_steps"`
}

func totalAlloc() uint64 {
	var m runtime.MemStats
	runtime.ReadMemStats(&m)
	return m.TotalAlloc
}

// measured runs one entry point twice and returns the smaller allocation:
// the parser runtime builds prediction caches lazily the first time it meets a
// construct, a one-off cost of the process, not of the document.
func measured(e *Env, en Entry, doc []byte, fromDoc bool, tmpl interface{}, cfg *configuration.Configuration, withRules bool, tag string) (alloc uint64, steps int, res Result) {
	a1, _, r1 := measuredOnce(e, en, doc, fromDoc, tmpl, cfg, withRules, tag)
	if r1.Panic != nil {
		return a1, 0, r1
	}
	a2, s2, r2 := measuredOnce(e, en, doc, fromDoc, tmpl, cfg, withRules, tag)
	if a1 < a2 {
		a2 = a1
	}
	return a2, s2, r2
}

func measuredOnce(e *Env, en Entry, doc []byte, fromDoc bool, tmpl interface{}, cfg *configuration.Configuration, withRules bool, tag string) (alloc uint64, steps int, res Result) {
	r := simio.NewReader(doc, simio.ReaderPlan{Cut: -1})
	if !en.IsUnmarshal() {
		// decode entries: an allocation-free counting receiver, so that the
		// measurement sees the library alone
		cnt := &rec.Counter{}
		var rcv events.DataEventReceiver = cnt
		var d ce.Decoder
		switch en {
		case EDecodeCBE:
			d = ce.NewCBEDecoder(cfg)
		case EDecodeCTE:
			d = ce.NewCTEDecoder(cfg)
		default:
			d = ce.NewCEDecoder(cfg)
		}
		name := tag + en.String()
		before := totalAlloc()
		if withRules {
			rcv = ce.NewRules(cnt, cfg)
		}
		if fromDoc {
			res.Panic = e.Op(name+"/doc", func() { res.Err = d.DecodeDocument(doc, rcv) })
		} else {
			res.Panic = e.Op(name, func() { res.Err = d.Decode(r, rcv) })
		}
		alloc = totalAlloc() - before
		steps = r.Calls + cnt.Events
		return
	}
	before := totalAlloc()
	if fromDoc {
		res = CallDocument(e, en, doc, tmpl, cfg, withRules, tag)
	} else {
		res = CallStream(e, en, r, tmpl, cfg, withRules, tag)
	}
	alloc = totalAlloc() - before
	steps = r.Calls
	return
}

// measuredReused runs first on a fresh long-lived instance, then measures second on the same instance.
func measuredReused(e *Env, en Entry, first, second []byte, tmpl interface{}, cfg *configuration.Configuration, withRules bool) (alloc uint64, steps int, res Result) {
	cnt := &rec.Counter{}
	var rcv events.DataEventReceiver = cnt
	if withRules {
		rcv = ce.NewRules(cnt, cfg)
	}
	var run func(doc []byte) (int, error)
	switch en {
	case EUnmarshalCBE:
		u := ce.NewCBEUnmarshaler(cfg)
		run = func(doc []byte) (int, error) {
			r := simio.NewReader(doc, simio.ReaderPlan{Cut: -1})
			_, err := u.Unmarshal(r, tmpl)
			return r.Calls, err
		}
	case EUnmarshalCTE, EUnmarshalCE:
		u := ce.NewCTEUnmarshaler(cfg)
		if len(first) > 0 && first[0] == 0x81 {
			u = ce.NewCBEUnmarshaler(cfg)
		}
		run = func(doc []byte) (int, error) {
			r := simio.NewReader(doc, simio.ReaderPlan{Cut: -1})
			_, err := u.Unmarshal(r, tmpl)
			return r.Calls, err
		}
	default:
		var d ce.Decoder
		switch en {
		case EDecodeCBE:
			d = ce.NewCBEDecoder(cfg)
		case EDecodeCTE:
			d = ce.NewCTEDecoder(cfg)
		default:
			d = ce.NewCEDecoder(cfg)
		}
		run = func(doc []byte) (int, error) {
			r := simio.NewReader(doc, simio.ReaderPlan{Cut: -1})
			if rr, ok := rcv.(interface{ Reset() }); ok {
				rr.Reset()
			}
			err := d.Decode(r, rcv)
			return r.Calls, err
		}
	}
	name := "reused:" + en.String()
	if p := e.Op(name+"(first)", func() { run(first) }); p != nil {
		res.Panic = p
		return
	}
	// warm the second document's path once on another instance? No: the point is
	// this instance's state. Measure directly.
	var calls int
	cnt.Events = 0
	before := totalAlloc()
	res.Panic = e.Op(name+"(second)", func() { calls, res.Err = run(second) })
	alloc = totalAlloc() - before
	steps = calls + cnt.Events
	return
}

var minimalDocs = map[gen.Format][]byte{gen.CBE: {0x81, 0x00, 0x01}, gen.CTE: []byte("c0\n1")}

var calibrated sync.Once

// calibrate decodes benign families of growing size and requires their
// measured cost to sit at least 10x below the budget formula; otherwise the
// budget constants are unusable on this build and the check refuses to judge.
func calibrate(e *Env) {
	cfg := configuration.New()
	for f := gen.CBE; f <= gen.CTE; f++ {
		k := uint64(kCBE)
		if f == gen.CTE {
			k = kCTE
		}
		en := EntriesFor(f)[0]
		measured(e, en, minimalDocs[f], true, nil, cfg, false, "ref:")
		measured(e, en, minimalDocs[f], true, nil, cfg, false, "ref:")
		base, _, _ := measured(e, en, minimalDocs[f], true, nil, cfg, false, "ref:")
		for _, n := range []int{50, 400, 3000} {
			for fam := 0; fam < 4; fam++ {
				doc := benignFamily(f, fam, n)
				a, _, res := measured(e, en, doc, true, nil, cfg, false, "ref:")
				if res.Panic != nil {
					continue
				}
				budget := 2*base + cSlack + k*uint64(len(doc))
				if a*10 > budget {
					fmt.Fprintf(os.Stderr, "INFRA: C08 calibration failed: benign %s family %d of %d bytes allocates %d bytes, budget would be %d (head-room below 10x)\n", f, fam, len(doc), a, budget)
					os.Exit(2)
				}
			}
		}
	}
}

// benignFamily builds valid documents of about n bytes: flat list of small
// ints, deep nesting, one long string, one byte array.
func benignFamily(f gen.Format, fam, n int) []byte {
	if f == gen.CBE {
		b := []byte{0x81, 0x00}
		switch fam {
		case 0:
			b = append(b, 0x9a)
			for i := 0; i < n; i++ {
				b = append(b, byte(i%100))
			}
			b = append(b, 0x9b)
		case 1:
			d := n / 2
			if d > 900 {
				d = 900
			}
			for i := 0; i < d; i++ {
				b = append(b, 0x9a)
			}
			for i := 0; i < d; i++ {
				b = append(b, 0x9b)
			}
		case 2:
			b = append(b, 0x90)
			b = appendULEB(b, uint64(n)<<1)
			for i := 0; i < n; i++ {
				b = append(b, 'a'+byte(i%26))
			}
		case 3:
			b = append(b, 0x93)
			b = appendULEB(b, uint64(n)<<1)
			for i := 0; i < n; i++ {
				b = append(b, byte(i))
			}
		}
		return b
	}
	var sb strings.Builder
	sb.WriteString("c0\n")
	switch fam {
	case 0:
		sb.WriteString("[")
		for i := 0; i < n/2; i++ {
			sb.WriteString("1 ")
		}
		sb.WriteString("]")
	case 1:
		d := n / 2
		if d > 400 {
			d = 400
		}
		sb.WriteString(strings.Repeat("[", d))
		sb.WriteString(strings.Repeat("]", d))
	case 2:
		sb.WriteString("\"" + strings.Repeat("abcdefgh", n/8+1) + "\"")
	case 3:
		sb.WriteString("@u8x[" + strings.Repeat("7f ", n/3+1) + "]")
	}
	return []byte(sb.String())
}

func appendULEB(b []byte, v uint64) []byte {
	for {
		c := byte(v & 0x7f)
		v >>= 7
		if v != 0 {
			b = append(b, c|0x80)
		} else {
			return append(b, c)
		}
	}
}

var hugeLengths = []uint64{0x100, 0x10000, 0xfffff, 0xffffff, 0x7ffffff, 0x3fffffff, 0x7fffffff, 0xffffffff, 0x1ffffffff, 0xffffffffff, 0x3fffffffffffffff}

// adversarialCBE builds a short document around one length-carrying header.
func adversarialCBE(t *tape.Tape) ([]byte, string) {
	b := []byte{0x81, 0x00}
	if t.Bool("adv-in-list") {
		b = append(b, 0x9a)
	}
	l := hugeLengths[t.Intn("adv-len", len(hugeLengths))]
	more := uint64(t.Intn("adv-more", 2))
	name := ""
	switch t.Intn("adv-kind", 12) {
	case 0:
		name = "string chunk header"
		b = append(b, 0x90)
		b = appendULEB(b, l<<1|more)
	case 1:
		name = "uint8 array chunk header"
		b = append(b, 0x93)
		b = appendULEB(b, l<<1|more)
	case 2:
		name = "plane-7f typed array chunk header"
		b = append(b, 0x7f, []byte{0xe0, 0xe1, 0xe2, 0xe3, 0xe4, 0xe5, 0xe6, 0xe7, 0xe8, 0xe9, 0xea}[t.Intn("adv-arrtype", 11)])
		b = appendULEB(b, l<<1|more)
	case 3:
		name = "media type length"
		b = append(b, 0x7f, 0xf3)
		b = appendULEB(b, l)
	case 4:
		name = "media data chunk header"
		b = append(b, 0x7f, 0xf3, 0x03, 'a', '/', 'b')
		b = appendULEB(b, l<<1|more)
	case 5:
		name = "custom type chunk header"
		b = append(b, 0x92, 0x01)
		b = appendULEB(b, l<<1|more)
	case 6:
		name = "big integer byte count"
		b = append(b, 0x66)
		b = appendULEB(b, l)
	case 7:
		name = "identifier length (marker)"
		b = append(b, 0x7f, 0xf0)
		b = appendULEB(b, l)
	case 8:
		name = "identifier length (record)"
		b = append(b, 0x96)
		b = appendULEB(b, l)
	case 9:
		name = "resource id chunk header"
		b = append(b, 0x91)
		b = appendULEB(b, l<<1|more)
	case 10:
		name = "bit array chunk header"
		b = append(b, 0x94)
		b = appendULEB(b, l<<1|more)
	case 11:
		name = "chain of continued zero-length chunks then a huge one"
		b = append(b, 0x93)
		for i := t.Small("adv-chain", 40); i > 0; i-- {
			b = append(b, 0x01)
		}
		b = appendULEB(b, l<<1)
	}
	// a little payload, never the announced amount
	b = append(b, t.Bytes("adv-payload", t.Small("adv-payload-len", 24))...)
	return b, name
}

func runC08(e *Env) Outcome {
	calibrated.Do(func() { calibrate(e) })
	t := e.T
	if t.Chance("scaling-mode", 1, 40) {
		return runC08Scaling(e, t)
	}
	f := gen.Format(t.Intn("format", 2))
	cfgd := CfgDesc{EnforceRules: !t.Chance("cfg-norules", 1, 3)}
	cfgd.MaxArray = []uint64{64, 1024, 65536, 1 << 20, 0}[t.Intn("cfg-maxarray", 5)]
	cfg := cfgd.Build()
	sc := &c08Scenario{Format: f.String(), Cfg: cfgd}
	var doc []byte
	fam := t.Intn("family", 8)
	var litTemplate func() interface{}
	switch {
	case fam == 7 && f == gen.CTE && t.Chance("separators-only", 1, 3):
		// a container holding nothing but separators (comments, or the
		// whitespace between characters the lexer rejects): a few hundred
		// bytes that give the parser's prediction nothing to decide on
		k := []int{10, 30, 60, 100}[t.Intn("sep-count", 4)]
		open, close := [][2]string{{"[", "]"}, {"{", "}"}, {"[[", "]]"}, {"@a<", ">"}}[t.Intn("sep-container", 4)][0], ""
		switch open {
		case "[":
			close = "]"
		case "{":
			close = "}"
		case "[[":
			close = "]]"
		default:
			close = ">"
		}
		sep := []string{"/**/ ", "/* c */\n", "// c\n", "? "}[t.Intn("sep-kind", 4)]
		doc = []byte("c0\n" + open + strings.Repeat(sep, k) + close)
		sc.Family = fmt.Sprintf("container %s%s holding only %d separators %q", open, close, k, sep)
		e.Count("fault:separators-only-container", 1)
	case fam == 7 && f == gen.CTE:
		var desc, tn string
		doc, desc, tn, litTemplate = adversarialLiteral(t)
		sc.Family = "adversarial literal: " + desc + " into " + tn
		e.Count("fault:huge-exponent-literal", 1)
	case fam == 7:
		var desc, tn string
		doc, desc, tn, litTemplate = adversarialNumberCBE(t)
		sc.Family = "adversarial number: " + desc + " into " + tn
		e.Count("fault:huge-exponent-number", 1)
	case fam <= 1 && f == gen.CBE:
		doc, sc.Family = adversarialCBE(t)
		sc.Family = "adversarial header: " + sc.Family
		e.Count("fault:oversized-length-field", 1)
	case fam <= 3:
		o := gen.DrawOpts(t)
		o.ArrayBias = true
		o.Chunked = true
		d, rej := gen.DrawDoc(t, f, o, configurationDefault)
		e.Count("generator_rejects", rej)
		doc = d.Bytes
		sc.Family = "generated document"
		if lens := lengthOffsets(d); len(lens) > 0 || f == gen.CTE {
			n := 1 + t.Intn("n-sf", 2)
			if f == gen.CBE && t.Chance("aim-at-length", 3, 4) {
				for i := 0; i < n; i++ {
					sc.Faults = append(sc.Faults, simio.StorageFault{Kind: "len-overwrite", At: lens[t.Intn("sf-lenoff", len(lens))], Val: ulebBytes(hugeLengths[t.Intn("sf-biglen", len(hugeLengths))]<<1 | uint64(t.Intn("sf-more", 2)))})
				}
			} else {
				sc.Faults = simio.DrawStorageFaults(t, n, len(doc), lens)
			}
			doc = simio.Apply(doc, sc.Faults)
			sc.Family = "generated document with corrupted length fields"
			for _, sf := range sc.Faults {
				e.Count("fault:storage/"+sf.Kind, 1)
			}
		}
	case fam == 4:
		n := []int{64, 512, 4096}[t.Intn("size", 3)]
		doc = benignFamily(f, t.Intn("benign-family", 4), n)
		sc.Family = "growing benign family"
	case fam == 6 && f == gen.CBE:
		// one array delivered in very many one-element chunks: cost must stay
		// proportional to the bytes, not to bytes x chunks
		n := []int{500, 5000, 30000}[t.Intn("size", 3)]
		doc = []byte{0x81, 0x00, []byte{0x90, 0x93, 0x91}[t.Intn("tiny-kind", 3)]}
		for i := 0; i < n; i++ {
			doc = append(doc, 0x03, 'a'+byte(i%26)) // chunk of 1 element, more follow
		}
		doc = append(doc, 0x02, 'z') // final chunk
		sc.Family = fmt.Sprintf("one array in %d one-element chunks", n+1)
		e.Count("fault:many-tiny-chunks", 1)
	default:
		n := []int{100, 1000, 2500}[t.Intn("size", 3)]
		doc = deepDoc(f, n, t.Intn("deep-kind", 3))
		sc.Family = "container run"
	}
	sc.DocLen = len(doc)
	sc.DocHex = fmt.Sprintf("%x", clipBytes(doc, 96))
	entries := EntriesFor(f)
	en := entries[t.Intn("entry", len(entries))]
	sc.Entry = en.String()
	withRules := cfgd.EnforceRules
	var tmpl interface{}
	if en.IsUnmarshal() && t.Bool("typed-template") {
		tmpl = []interface{}{[]byte{}, "", []uint16{}, []interface{}{}, map[interface{}]interface{}{}}[t.Intn("template", 5)]
	}
	if litTemplate != nil && en.IsUnmarshal() {
		tmpl = litTemplate()
	}
	fromDoc := t.Bool("from-document")
	sig := Hash("c08", doc, en, cfgd, fmt.Sprintf("%T", tmpl), fromDoc)

	// base: the same entry point on a minimal document under the same configuration
	measured(e, en, minimalDocs[f], fromDoc, tmpl, cfg, withRules, "ref:")
	base, _, _ := measured(e, en, minimalDocs[f], fromDoc, tmpl, cfg, withRules, "ref:")

	var alloc uint64
	var steps int
	var res Result
	var reusedFirst []byte
	if t.Chance("reused-instance", 1, 4) {
		// one long-lived decoder/unmarshaler: the adversarial document first
		// (whatever it does), then a small benign one whose cost is measured
		second := benignFamily(f, t.Intn("second-family", 4), []int{3, 40, 300}[t.Intn("second-size", 3)])
		sc.Family += "; then a benign document on the SAME instance (measured)"
		e.Count("reused_instance_measurements", 1)
		alloc, steps, res = measuredReused(e, en, doc, second, tmpl, cfg, withRules)
		reusedFirst = doc
		doc = second
		sc.DocLen = len(doc)
	} else {
		alloc, steps, res = measured(e, en, doc, fromDoc, tmpl, cfg, withRules, "")
	}
	k := uint64(kCBE)
	if f == gen.CTE {
		k = kCTE
	}
	budget := 2*base + cSlack + k*uint64(len(doc))
	if withRules {
		budget += 8 * cfg.Rules.MaxArraySizeBytes
	}
	sc.Alloc, sc.Budget, sc.Base, sc.Steps = alloc, budget, base, steps
	e.Seen(len(sc.Faults) > 0 || strings.HasPrefix(sc.Family, "adversarial") || strings.HasPrefix(sc.Family, "container") || strings.HasPrefix(sc.Family, "one array"), sig)
	e.Count("measured_decodes", 1)
	e.Count("work_steps", steps)
	if res.Panic != nil {
		e.Fail("panic-escaped", fmt.Sprintf("entry=%s site=%s", en, res.Panic.Frame), res.Panic.Value)
		return e.Finish(sig, nil, sc)
	}
	if alloc > budget {
		site, entry := "", en.String()
		if reusedFirst != nil {
			// the cost belongs to state the first document left in the instance
			entry = "reused:" + entry
			site = "after-an-earlier-document-on-the-same-instance"
		} else if !e.Failed() {
			site = allocSite(e, en, doc, fromDoc, tmpl, cfg, withRules)
		}
		e.Fail("alloc-over-budget", fmt.Sprintf("entry=%s site=%s", entry, site),
			fmt.Sprintf("decoding a %d-byte document allocated %d bytes; budget %d (= 2*base %d + 4 MiB + %d*len + 8*MaxArraySizeBytes when rules are on)", len(doc), alloc, budget, base, k))
	}
	if alloc*10 > budget {
		e.Count("probe:allocation_within_10x_of_budget", 1)
	}
	if steps > 8*len(doc)+64 {
		e.Fail("work-over-budget", fmt.Sprintf("entry=%s format=%s", en, f), fmt.Sprintf("%d reader calls + events for a %d-byte document (bound 8*len+64)", steps, len(doc)))
	}
	return e.Finish(sig, sc, sc)
}

func ulebBytes(v uint64) []byte { return appendULEB(nil, v) }

// allocSite re-runs the decode under a heap profile with every allocation
// sampled and names the library function that allocated most.
func allocSite(e *Env, en Entry, doc []byte, fromDoc bool, tmpl interface{}, cfg *configuration.Configuration, withRules bool) string {
	old := runtime.MemProfileRate
	runtime.MemProfileRate = 1
	defer func() { runtime.MemProfileRate = old }()
	runtime.GC()
	before := map[string]int64{}
	collect := func(into map[string]int64) {
		recs := make([]runtime.MemProfileRecord, 4096)
		n, ok := runtime.MemProfile(recs, true)
		for !ok {
			recs = make([]runtime.MemProfileRecord, n+1024)
			n, ok = runtime.MemProfile(recs, true)
		}
		for _, r := range recs[:n] {
			frames := runtime.CallersFrames(r.Stack())
			for {
				fr, more := frames.Next()
				if strings.HasPrefix(fr.Function, "github.com/kstenerud/go-concise-encoding/") {
					into[strings.TrimPrefix(fr.Function, "github.com/kstenerud/go-concise-encoding/")] += r.AllocBytes
					break
				}
				if !more {
					break
				}
			}
		}
	}
	collect(before)
	measured(e, en, doc, fromDoc, tmpl, cfg, withRules, "")
	runtime.GC()
	after := map[string]int64{}
	collect(after)
	best, bestN := "", int64(0)
	for k, v := range after {
		if d := v - before[k]; d > bestN {
			best, bestN = k, d
		}
	}
	return best
}
