package scen

import (
	"fmt"
	"reflect"

	"github.com/kstenerud/go-concise-encoding/ce"
	"github.com/kstenerud/go-concise-encoding/configuration"

	"verifsim/eq"
	"verifsim/gen"
	"verifsim/rec"
	"verifsim/simio"
)

// C09: cutting a valid document at any byte strictly inside it makes unmarshal
// return an error, and the partial value returned is a prefix of the full one.
//
// Crash model: the stream ends (clean EOF) after byte k for EVERY k with
// 0 < k < len(doc): the writer crashed, the file was torn. Entry points: the
// from-memory unmarshal and the reader unmarshal (SimReader that reports EOF at
// k, under a drawn delivery plan); templates: untyped and the type of the
// marshaled value.

func init() { Registry["C09"] = runC09 }

type c09Scenario struct {
	Format   string   `json:"format"`
	Source   string   `json:"document_source"`
	Cfg      CfgDesc  `json:"config"`
	DocHex   string   `json:"doc_hex"`
	DocText  string   `json:"doc_text,omitempty"`
	Template string   `json:"template"`
	Cut      int      `json:"failing_cut,omitempty"`
	Entry    string   `json:"failing_entry,omitempty"`
	Events   []string `json:"events,omitempty"`
}

func runC09(e *Env) Outcome {
	t := e.T
	f := gen.Format(t.Intn("format", 2))
	// Rule checks stay on: with them disabled by the caller nothing is meant to
	// notice a structurally incomplete document.
	cfgd := CfgDesc{EnforceRules: true}
	cfg := cfgd.Build()
	sc := &c09Scenario{Format: f.String(), Cfg: cfgd}
	var doc []byte
	var gdoc *gen.Doc
	var srcValue interface{}
	type tmpl struct {
		name string
		mk   func() interface{}
	}
	templates := []tmpl{{"nil", func() interface{} { return nil }}}
	structOnStream := false
	if t.Bool("from-value") {
		// document = what the real marshaler writes for a generated value
		vo := gen.DrawValOpts(t)
		vo.MaxDepth++
		var val gen.Val
		var err error
		for try := 0; try < 6; try++ {
			val = gen.DrawValue(t, vo)
			if f == gen.CBE {
				doc, err = ce.MarshalToCBEDocument(val.V, cfg)
			} else {
				doc, err = ce.MarshalToCTEDocument(val.V, cfg)
			}
			if err == nil && len(doc) > 3 && (f == gen.CBE || endsWithCloser(doc)) {
				break
			}
			doc = nil
		}
		if doc == nil {
			e.Count("generator_rejects", 1)
			return e.Finish(0, nil, sc)
		}
		sc.Source = "marshaled value of type " + val.Desc
		srcValue = val.V
		templates = append(templates, tmpl{val.Desc, val.New})
	} else {
		o := gen.DrawOpts(t)
		o.Padding = false
		// Records used to be left out (record keys aliased the reader's buffer,
		// so the full value was unusable as reference); since that was repaired
		// in /repo (1edc894) they are drawn like everything else. A record is
		// opaque to the completeness model; the prefix clause still applies to
		// whatever the builder leaves behind for a record that was cut.
		if !t.Chance("records-allowed", 2, 3) {
			o.Records = false
		} else if t.Chance("record-bias", 1, 3) {
			o.Records, o.RecordBias = true, true
		}
		// Forward references are left out as well: until its marker arrives a
		// forward reference has no value, so "prefix" and "completely decoded"
		// are not defined by the property for the positions that hold one (the
		// builder keeps a nil there and fills it in later).
		o.ForwardRefs = false
		if f == gen.CTE {
			o.TopContainer = true
		}
		if t.Chance("struct-template", 1, 4) {
			// a top-level map with keys k1, k2, ... AND keys of other kinds
			// (numbers, UIDs, ...), read into a struct template with fields K1,
			// K2, ...: a key that names no field must not disturb the fields
			// that were complete before it
			o.TopContainer, o.TopMap = true, true
			if o.MaxItems < 3 {
				o.MaxItems = 3
			}
			st := c07StructTemplates[t.Intn("struct-template-which", len(c07StructTemplates))]
			templates = append(templates, tmpl{st.name, st.mk})
			structOnStream = true
		}
		var rej int
		gdoc, rej = gen.DrawDoc(t, f, o, cfg)
		e.Count("generator_rejects", rej)
		doc = gdoc.Bytes
		sc.Source = "encoded event stream"
		for _, ev := range gdoc.Events {
			if ev.K == rec.KRecord {
				e.Count("docs_with_record_instances", 1)
				break
			}
		}
		if f == gen.CTE && !endsWithCloser(doc) {
			e.Count("generator_rejects", 1)
			return e.Finish(0, nil, sc)
		}
	}
	if len(doc) > 700 && !e.Thorough() {
		e.Count("docs_skipped_too_long", 1)
		return e.Finish(0, nil, sc)
	}
	sc.DocHex = fmt.Sprintf("%x", doc)
	if f == gen.CTE {
		sc.DocText = string(doc)
	}
	sig := Hash("c09", doc)
	unmarshalDoc := func(b []byte, tm interface{}, tag string) (v interface{}, err error, p *PanicInfo) {
		name := tag + "UnmarshalFrom" + map[gen.Format]string{gen.CBE: "CBE", gen.CTE: "CTE"}[f] + "Document"
		p = e.Op(name, func() {
			if f == gen.CBE {
				v, err = ce.UnmarshalFromCBEDocument(b, tm, cfg)
			} else {
				v, err = ce.UnmarshalFromCTEDocument(b, tm, cfg)
			}
		})
		return
	}
	unmarshalStream := func(r *simio.SimReader, tm interface{}) (v interface{}, err error, p *PanicInfo) {
		name := "Unmarshal" + map[gen.Format]string{gen.CBE: "CBE", gen.CTE: "CTE"}[f]
		p = e.Op(name, func() {
			if f == gen.CBE {
				v, err = ce.UnmarshalCBE(r, tm, cfg)
			} else {
				v, err = ce.UnmarshalCTE(r, tm, cfg)
			}
		})
		return
	}
	plan := simio.DrawReaderPlan(t, len(doc))
	// failed[k][class]: the baseline variant (from memory, untyped) already
	// failed this way at this cut; the same failure under another entry point or
	// template is then the same defect and is not reported under more features.
	failed := map[int]map[string]bool{}
	for ti, tm := range templates {
		sc.Template = tm.name
		e.Phase("ref")
		full, ferr, fp := unmarshalDoc(doc, tm.mk(), "ref:")
		e.Phase("main")
		if fp != nil || ferr != nil {
			// the complete document does not unmarshal into this template: no reference
			e.Count("reference_unusable", 1)
			continue
		}
		if ti == 1 && !structOnStream {
			// typed template of the marshaled value: the library's own round
			// trip must be faithful, otherwise its full value is no reference
			// (a marshal/unmarshal matter that belongs to other properties,
			// e.g. a map entry with a nil value that the typed builder drops)
			cmpFull := full
			if fv := reflect.ValueOf(full); fv.IsValid() && fv.Kind() == reflect.Ptr && !fv.IsNil() && fv.Type().Elem() == reflect.TypeOf(srcValue) {
				cmpFull = fv.Elem().Interface() // struct and array templates come back as pointers
			}
			if ok, _ := eq.Equal(cmpFull, srcValue); !ok {
				e.Count("reference_unusable_roundtrip_not_faithful", 1)
				continue
			}
		}
		e.Count("documents_x_templates", 1)
		var model *mnode
		if gdoc == nil && ti == 1 {
			// typed template of a marshaled value: the model comes from the
			// document's own event list (decoded, then re-encoded to get the
			// offset after every event; used only if that reproduces the bytes)
			if vdoc := eventsOf(e, doc, f, cfg); vdoc != nil {
				model = buildModel(vdoc)
			}
			if model == nil {
				e.Count("model_not_applicable", 1)
			}
		}
		if gdoc != nil && ti == 0 {
			model = buildModel(gdoc)
			if model == nil {
				e.Count("model_not_applicable", 1)
			} else if !modelAgrees(model, reflect.ValueOf(full)) {
				// the value built from the COMPLETE document already lacks
				// something the event list contains (a pure decode/build matter
				// that belongs to other properties, e.g. marked arrays that the
				// builder drops): the library's full value is no usable
				// reference for this document
				e.Count("reference_unusable_full_value_disagrees_with_events", 1)
				continue
			}
		}
		for k := 1; k < len(doc); k++ {
			for entry := 0; entry < 2; entry++ {
				var part interface{}
				var err error
				var p *PanicInfo
				ename := "document"
				if entry == 0 {
					part, err, p = unmarshalDoc(doc[:k], tm.mk(), "")
				} else {
					pl := plan
					pl.Cut = k
					r := simio.NewReader(doc, pl)
					part, err, p = unmarshalStream(r, tm.mk())
					e.Count("reader_calls", r.Calls)
					ename = "reader"
				}
				e.Seen(true, sig, tm.name, k, entry)
				e.Count("fault:cut", 1)
				fail := func(class, what string) {
					if failed[k][class] {
						return
					}
					if ti == 0 && entry == 0 {
						if failed[k] == nil {
							failed[k] = map[string]bool{}
						}
						failed[k][class] = true
					}
					if !e.Failed() {
						sc.Cut, sc.Entry = k, ename
						if gdoc != nil {
							sc.Events = clipStrings(recStrings(gdoc), 60)
						}
					}
					feat := map[string]bool{"typed-template": tm.name != "nil", "via-reader": entry == 1}
					if f == gen.CTE {
						// a cut between two non-blank characters splits a lexical token
						if (!isBlank(doc[k-1]) && !isBlank(doc[k])) || insideQuotes(doc, k) {
							// the cut truncates a text token: what the shorter token
							// decodes to does not depend on entry point or template
							feat = map[string]bool{"cut-splits-token": true}
						}
					} else if gdoc != nil {
						feat["cut-in:"+cutKind(gdoc, k)] = true
					}
					e.Fail(class, fmt.Sprintf("format=%s features=%s", f, Features(feat)), what)
				}
				if p != nil {
					if !e.Failed() {
						sc.Cut, sc.Entry = k, ename
					}
					e.Fail("panic-escaped", fmt.Sprintf("entry=Unmarshal(%s) site=%s", ename, p.Frame), p.Value)
					continue
				}
				if err == nil {
					fail("silent-success", fmt.Sprintf("document cut at byte %d of %d unmarshaled without error", k, len(doc)))
				}
				if ok, why := eq.Prefix(part, full); !ok {
					fail("not-a-prefix", fmt.Sprintf("cut at %d of %d: partial value is not a prefix of the full value: %s", k, len(doc), why))
				} else if model != nil {
					if ok, why := checkComplete(model, reflect.ValueOf(part), reflect.ValueOf(full), k, f == gen.CTE, "$"); !ok {
						fail("incomplete-prefix", fmt.Sprintf("cut at %d of %d: %s", k, len(doc), why))
					}
					e.Count("completeness_checks", 1)
				}
				if !e.FailureBudgetLeft() {
					return e.Finish(sig, nil, sc)
				}
			}
		}
	}
	return e.Finish(sig, sc, sc)
}

// insideQuotes reports whether offset k lies inside a quoted CTE string
// (an odd number of unescaped quotes precede it).
func insideQuotes(doc []byte, k int) bool {
	in := false
	for i := 0; i < k && i < len(doc); i++ {
		switch doc[i] {
		case '\\':
			if in {
				i++
			}
		case '"':
			in = !in
		}
	}
	return in
}

func isBlank(b byte) bool { return b == ' ' || b == '\n' || b == '\t' || b == '\r' }

// eventsOf returns the event list of a document with the encoder offset after
// each event, obtained by decoding it and encoding the events again; nil if
// that does not reproduce the document byte for byte.
func eventsOf(e *Env, doc []byte, f gen.Format, cfg *configuration.Configuration) *gen.Doc {
	rc := &rec.Recorder{}
	var err error
	p := e.Op("ref:Decoder.DecodeDocument", func() {
		if f == gen.CBE {
			err = ce.NewCBEDecoder(cfg).DecodeDocument(doc, rc)
		} else {
			err = ce.NewCTEDecoder(cfg).DecodeDocument(doc, rc)
		}
	})
	if p != nil || err != nil {
		return nil
	}
	d, eerr := gen.Encode(rc.Evs, f, cfg)
	if eerr != nil || string(d.Bytes) != string(doc) {
		return nil
	}
	return d
}

func endsWithCloser(doc []byte) bool {
	if len(doc) == 0 {
		return false
	}
	switch doc[len(doc)-1] {
	case ']', '}', ')', '>':
		return true
	}
	return false
}

func recStrings(d *gen.Doc) []string {
	out := make([]string, len(d.Events))
	for i, ev := range d.Events {
		out[i] = ev.String()
	}
	return out
}

func clipStrings(s []string, n int) []string {
	if len(s) > n {
		return s[:n]
	}
	return s
}

// cutKind names the kind of the event whose bytes contain offset k.
func cutKind(d *gen.Doc, k int) string {
	for i, off := range d.Off {
		if k < off {
			return d.Events[i].K.String()
		}
	}
	return "end"
}
