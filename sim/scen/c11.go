package scen

import (
	"bytes"
	"fmt"
	"strings"
	"unicode/utf8"

	"github.com/kstenerud/go-concise-encoding/ce"
	"github.com/kstenerud/go-concise-encoding/ce/events"
	"github.com/kstenerud/go-concise-encoding/configuration"

	"verifsim/gen"
	"verifsim/rec"
	"verifsim/tape"
)

// C11: the validator accepts an array exactly when the data delivered matches
// the declared chunk lengths, the last chunk is final, and string-like
// contents are valid UTF-8 with every chunk ending on a character boundary;
// the verdict does not depend on how chunk data is divided among data events.
//
// Schedule space: the producer's flush schedule (chunk boundaries and the
// split of each chunk's bytes over OnArrayData calls). Faults: under/over
// delivery, a last chunk flagged "more follow", a chunk boundary inside a
// character, an invalid UTF-8 byte, data after the final chunk.
// Oracle: a small reference acceptor written from the property statement.

func init() { Registry["C11"] = runC11 }

// arrayStep is one event after the array-begin event.
type arrayStep struct {
	Chunk bool
	Elems uint64
	More  bool
	Data  []byte
}

func (s arrayStep) String() string {
	if s.Chunk {
		return fmt.Sprintf("chunk(%d,more=%v)", s.Elems, s.More)
	}
	return fmt.Sprintf("data(%x)", s.Data)
}

func stringLike(a gen.Array) bool {
	if a.Kind == rec.KMediaBegin {
		return false
	}
	switch a.AT {
	case events.ArrayTypeString, events.ArrayTypeResourceID, events.ArrayTypeReferenceRemote, events.ArrayTypeCustomText:
		return true
	}
	return false
}

func elemsToBytes(a gen.Array, elems uint64) uint64 {
	if a.Kind == rec.KArrayBegin && a.AT == events.ArrayTypeBit {
		return (elems + 7) / 8
	}
	if a.Kind == rec.KArrayBegin && !stringLike(a) {
		return elems * uint64(a.AT.ElementSize()/8)
	}
	return elems
}

// referenceAccepts is the executable form of the property statement. It is
// deliberately independent of how data is split over events: it looks at the
// bytes each chunk received in total.
func referenceAccepts(a gen.Array, steps []arrayStep) (accept bool, why string) {
	if a.Kind == rec.KMediaBegin && !utf8.ValidString(a.Media) {
		return false, "media type is not valid UTF-8"
	}
	open := false     // a chunk is waiting for data
	finished := false // the final chunk completed
	var want uint64
	var got []byte
	closeChunk := func() (bool, string) {
		if uint64(len(got)) != want {
			return false, fmt.Sprintf("chunk declared %d bytes, received %d", want, len(got))
		}
		if stringLike(a) && !utf8.Valid(got) {
			return false, "chunk is not valid UTF-8 ending on a character boundary"
		}
		return true, ""
	}
	lastMore := true
	for _, s := range steps {
		if finished {
			return false, "event after the final chunk completed"
		}
		if s.Chunk {
			if open {
				if ok, w := closeChunk(); !ok {
					return false, w
				}
			}
			want, got, open, lastMore = elemsToBytes(a, s.Elems), nil, true, s.More
			if want == 0 {
				open = false
				if !s.More {
					finished = true
				}
			}
			continue
		}
		if !open {
			return false, "data without an open chunk"
		}
		got = append(got, s.Data...)
		if uint64(len(got)) > want {
			return false, "more data than the chunk declared"
		}
		if uint64(len(got)) == want {
			if ok, w := closeChunk(); !ok {
				return false, w
			}
			open = false
			if !lastMore {
				finished = true
			}
		}
	}
	if !finished {
		if open {
			return false, "array ended inside a chunk"
		}
		return false, "last chunk was not final"
	}
	return true, ""
}

type c11Scenario struct {
	Array    string   `json:"array"`
	Payload  string   `json:"payload_hex"`
	Position string   `json:"position"`
	Steps    []string `json:"failing_schedule,omitempty"`
	Fault    string   `json:"fault,omitempty"`
	Verdicts string   `json:"verdicts,omitempty"`
}

var c11Texts = []string{"", "a", "é", "日本", "𝄞", "aé日𝄞z", "ключ€😀", " ࠀ￿\U00010000", "plain ascii text 0123456789"}

func drawC11Array(t *tape.Tape) gen.Array {
	switch t.Intn("arr-family", 5) {
	case 0, 1:
		txt := c11Texts[t.Intn("arr-text", len(c11Texts))]
		for i := t.Small("arr-text-rep", 3); i > 0; i-- {
			txt += c11Texts[t.Intn("arr-text", len(c11Texts))]
		}
		at := []events.ArrayType{events.ArrayTypeString, events.ArrayTypeResourceID, events.ArrayTypeReferenceRemote, events.ArrayTypeCustomText}[t.Intn("arr-strkind", 4)]
		a := gen.Array{Kind: rec.KArrayBegin, AT: at, Payload: []byte(txt), Elems: uint64(len(txt))}
		if at == events.ArrayTypeCustomText {
			a.Kind, a.Custom = rec.KCustomBegin, uint64(t.Intn("arr-custom", 200))
		}
		return a
	case 2:
		return gen.DrawTypedArray(t, 48)
	case 3:
		p := t.Bytes("arr-media", t.Small("arr-media-len", 40))
		return gen.Array{Kind: rec.KMediaBegin, Media: []string{"a/b", "application/x-é"}[t.Intn("arr-mediatype", 2)], Payload: p, Elems: uint64(len(p))}
	}
	p := t.Bytes("arr-cbin", t.Small("arr-cbin-len", 40))
	return gen.Array{Kind: rec.KCustomBegin, AT: events.ArrayTypeCustomBinary, Custom: uint64(t.Intn("arr-custom", 200)), Payload: p, Elems: uint64(len(p))}
}

func describeArray(a gen.Array) string {
	switch a.Kind {
	case rec.KMediaBegin:
		return fmt.Sprintf("media(%q)", a.Media)
	case rec.KCustomBegin:
		return fmt.Sprintf("custom(%v,%d)", a.AT, a.Custom)
	}
	return fmt.Sprintf("array(%v,%d elems)", a.AT, a.Elems)
}

func stepsFromChunking(a gen.Array, ck gen.Chunking) []arrayStep {
	var steps []arrayStep
	off := 0
	for i, c := range ck.Chunks {
		steps = append(steps, arrayStep{Chunk: true, Elems: c.Elems, More: i != len(ck.Chunks)-1})
		for _, s := range c.Splits {
			steps = append(steps, arrayStep{Data: a.Payload[off : off+s]})
			off += s
		}
	}
	return steps
}

// c11Deliver feeds begin + steps (wrapped in a minimal document) to a fresh
// validator. It returns whether the validator accepted and what it forwarded.
func c11Deliver(e *Env, a gen.Array, pos int, steps []arrayStep, cfg *configuration.Configuration) (accepted bool, fwd []rec.Ev, p *PanicInfo) {
	var evs []rec.Ev
	switch a.Kind {
	case rec.KMediaBegin:
		evs = append(evs, rec.Ev{K: rec.KMediaBegin, MT: a.Media})
	case rec.KCustomBegin:
		evs = append(evs, rec.Ev{K: rec.KCustomBegin, AT: a.AT, U: a.Custom})
	default:
		evs = append(evs, rec.Ev{K: rec.KArrayBegin, AT: a.AT})
	}
	for _, s := range steps {
		if s.Chunk {
			evs = append(evs, rec.Ev{K: rec.KArrayChunk, U: s.Elems, B: s.More})
		} else {
			evs = append(evs, rec.Ev{K: rec.KArrayData, S: s.Data})
		}
	}
	return c11DeliverEvents(e, pos, evs, cfg)
}

// c11DeliverEvents wraps the array's events in a minimal valid document.
func c11DeliverEvents(e *Env, pos int, mid []rec.Ev, cfg *configuration.Configuration) (accepted bool, fwd []rec.Ev, p *PanicInfo) {
	rc := &rec.Recorder{}
	var evs []rec.Ev
	evs = append(evs, rec.Ev{K: rec.KBeginDocument}, rec.Ev{K: rec.KVersion})
	switch pos {
	case 1:
		evs = append(evs, rec.Ev{K: rec.KList}, rec.Ev{K: rec.KTrue})
	case 2:
		evs = append(evs, rec.Ev{K: rec.KMap}, rec.Ev{K: rec.KPositiveInt, U: 1})
	case 3:
		evs = append(evs, rec.Ev{K: rec.KMap})
	case 4:
		// marked map keys: another marked, chunked key first, then the array
		// under test as a marked key, then a plain key - the map's own
		// bookkeeping (what it records as each key) must not depend on the
		// delivery form either
		evs = append(evs, rec.Ev{K: rec.KMap},
			rec.Ev{K: rec.KMarker, S: []byte("ma")}, rec.Ev{K: rec.KArrayBegin, AT: events.ArrayTypeString},
			rec.Ev{K: rec.KArrayChunk, U: 9, B: false}, rec.Ev{K: rec.KArrayData, S: []byte("other")}, rec.Ev{K: rec.KArrayData, S: []byte("-key")},
			rec.Ev{K: rec.KTrue},
			rec.Ev{K: rec.KMarker, S: []byte("mb")})
	case 7:
		// after ANOTHER array that ended with an empty final chunk, under an
		// array size limit that fits each array but not both: what the first
		// array's delivery leaves behind must not count against the second
		evs = append(evs, rec.Ev{K: rec.KList}, rec.Ev{K: rec.KArrayBegin, AT: events.ArrayTypeUint8},
			rec.Ev{K: rec.KArrayChunk, U: c11FirstArrayLen, B: true}, rec.Ev{K: rec.KArrayData, S: bytes.Repeat([]byte{0x55}, c11FirstArrayLen)},
			rec.Ev{K: rec.KArrayChunk, U: 0, B: false})
	case 5:
		// a marked key whose marker is USED: its own value refers to it. The
		// marker must exist whatever form the key was delivered in.
		evs = append(evs, rec.Ev{K: rec.KMap}, rec.Ev{K: rec.KMarker, S: []byte("mb")})
	case 6:
		// two keys marked with the SAME identifier (the first delivered whole):
		// never valid, whatever form the second key is delivered in
		evs = append(evs, rec.Ev{K: rec.KMap},
			rec.Ev{K: rec.KMarker, S: []byte("mb")}, rec.Ev{K: rec.KArray, AT: events.ArrayTypeString, U: 9, S: []byte("other-key")},
			rec.Ev{K: rec.KTrue},
			rec.Ev{K: rec.KMarker, S: []byte("mb")})
	}
	evs = append(evs, mid...)
	switch pos {
	case 1, 7:
		evs = append(evs, rec.Ev{K: rec.KEndContainer})
	case 2:
		evs = append(evs, rec.Ev{K: rec.KEndContainer})
	case 3:
		evs = append(evs, rec.Ev{K: rec.KNull}, rec.Ev{K: rec.KEndContainer})
	case 4, 6:
		evs = append(evs, rec.Ev{K: rec.KNull},
			rec.Ev{K: rec.KArray, AT: events.ArrayTypeString, U: 5, S: []byte("plain")}, rec.Ev{K: rec.KFalse},
			rec.Ev{K: rec.KEndContainer})
	case 5:
		evs = append(evs, rec.Ev{K: rec.KReferenceLocal, S: []byte("mb")},
			rec.Ev{K: rec.KArray, AT: events.ArrayTypeString, U: 5, S: []byte("plain")}, rec.Ev{K: rec.KFalse},
			rec.Ev{K: rec.KEndContainer})
	}
	evs = append(evs, rec.Ev{K: rec.KEndDocument})
	var err error
	p = e.Op("RulesEventReceiver.On*", func() {
		r := ce.NewRules(rc, cfg)
		_, err = gen.Feed(evs, r, nil)
	})
	return err == nil && p == nil, rc.Evs, p
}

var c11Positions = []string{"top-level", "list element", "map value", "map key", "marked map key after another marked chunked key",
	"marked map key whose value refers to the marker", "marked map key after a key marked with the same identifier",
	"list element after another array that ended with an empty final chunk, array size limit fits each but not both"}

const c11FirstArrayLen = 40

func runC11(e *Env) Outcome {
	t := e.T
	cfg := configurationDefault
	a := drawC11Array(t)
	pos := t.Intn("position", 8)
	if pos >= 3 && pos <= 6 && !(a.Kind == rec.KArrayBegin && (a.AT == events.ArrayTypeString || a.AT == events.ArrayTypeResourceID)) {
		pos = 1
	}
	if pos == 7 {
		// a limit that fits each of the two arrays, but not their sum
		limit := uint64(len(a.Payload))
		if limit < c11FirstArrayLen {
			limit = c11FirstArrayLen
		}
		cfg = CfgDesc{EnforceRules: true, MaxArray: limit + 8}.Build()
	}
	if pos >= 4 && pos <= 6 && (string(a.Payload) == "other-key" || string(a.Payload) == "plain" || len(a.Payload) == 0) {
		pos = 3 // would be a duplicate (or empty) key for reasons of its own
	}
	sc := &c11Scenario{Array: describeArray(a), Payload: fmt.Sprintf("%x", a.Payload), Position: c11Positions[pos]}
	sig := Hash("c11", a.Kind, a.AT, a.Media, a.Custom, a.Payload, a.Elems, pos)
	n := len(a.Payload)

	var checkArr func(a gen.Array, steps []arrayStep, fault string) bool
	check := func(steps []arrayStep, fault string) bool { return checkArr(a, steps, fault) }
	checkArr = func(a gen.Array, steps []arrayStep, fault string) bool {
		want, why := referenceAccepts(a, steps)
		if pos == 6 && want {
			want, why = false, "the marker identifier is already in use"
		}
		got, fwd, p := c11Deliver(e, a, pos, steps, cfg)
		nontrivial := fault != "" || len(steps) > 2
		e.Seen(nontrivial, sig, fmt.Sprint(steps), fault)
		e.Count("data_events", len(steps))
		if fault != "" {
			e.Count("fault:"+fault, 1)
		}
		feat := map[string]bool{}
		if fault != "" {
			feat["fault:"+fault] = true
		}
		feat["string-like"] = stringLike(a)
		feat["marked-key"] = pos >= 4 && pos <= 6
		feat["second-array-under-tight-limit"] = pos == 7
		feat["split-in-char"] = splitsInsideChar(a, steps)
		feat["multi-chunk"] = countChunks(steps) > 1
		feat["zero-length-chunk"] = hasZeroChunk(steps)
		for _, st := range steps {
			if !st.Chunk && len(st.Data) == 0 {
				feat["empty-data-event"] = true
			}
		}
		if feat["split-in-char"] {
			e.Count("probe:split_inside_character", 1)
		}
		if feat["zero-length-chunk"] {
			e.Count("probe:zero_length_chunk", 1)
		}
		if fault == "chunk-ends-inside-char" && !want && !got {
			e.Count("probe:chunk_boundary_inside_character_fault_rejected", 1)
		}
		if p != nil {
			sc.Steps, sc.Fault = stepStrings(steps), fault
			e.Fail("panic-escaped", fmt.Sprintf("entry=RulesEventReceiver site=%s", p.Frame), p.Value)
			return false
		}
		if got != want {
			if !e.Failed() {
				sc.Steps, sc.Fault = stepStrings(steps), fault
				sc.Verdicts = fmt.Sprintf("validator accept=%v, reference accept=%v (%s)", got, want, why)
			}
			e.Fail("verdict-mismatch", fmt.Sprintf("kind=%s features=%s", kindName(a), Features(feat)), sc.Verdicts)
			return e.FailureBudgetLeft()
		}
		if got {
			// accepted: what was passed on must be the same array
			var payload []byte
			for _, ev := range fwd {
				if ev.K == rec.KArrayData {
					payload = append(payload, ev.S...)
				}
			}
			if pos == 7 && len(payload) >= c11FirstArrayLen {
				payload = payload[c11FirstArrayLen:] // the first array's data
			}
			if pos == 4 {
				// the other marked key's own data events come first (in position
				// 6 the other key is a whole-array event: no data events)
				payload = []byte(strings.TrimPrefix(string(payload), "other-key"))
			}
			var delivered []byte
			for _, st := range steps {
				delivered = append(delivered, st.Data...)
			}
			if string(payload) != string(delivered) {
				if !e.Failed() {
					sc.Steps, sc.Fault = stepStrings(steps), fault
				}
				e.Fail("forwarded-data-differs", fmt.Sprintf("kind=%s features=%s", kindName(a), Features(feat)), fmt.Sprintf("forwarded %x, delivered %x", payload, delivered))
				return e.FailureBudgetLeft()
			}
		}
		return true
	}

	// fault-free schedules -------------------------------------------------
	one := gen.OneChunk(a)
	if !check(stepsFromChunking(a, one), "") {
		return e.Finish(sig, nil, sc)
	}
	if n <= 64 {
		// every single split point of the one-chunk form
		for k := 1; k < n; k++ {
			ck := gen.Chunking{Chunks: []gen.Chunk{{Elems: a.Elems, Bytes: n, Splits: []int{k, n - k}}}}
			if !check(stepsFromChunking(a, ck), "") {
				return e.Finish(sig, nil, sc)
			}
		}
		e.Count("arrays_all_single_splits", 1)
	}
	if n <= 24 {
		for i := 1; i < n; i++ {
			for j := i + 1; j < n; j++ {
				ck := gen.Chunking{Chunks: []gen.Chunk{{Elems: a.Elems, Bytes: n, Splits: []int{i, j - i, n - j}}}}
				if !check(stepsFromChunking(a, ck), "") {
					return e.Finish(sig, nil, sc)
				}
			}
		}
		e.Count("arrays_all_double_splits", 1)
	}
	nd := 6
	if e.Thorough() {
		nd = 16
	}
	for i := 0; i < nd; i++ {
		if !check(stepsFromChunking(a, gen.DrawChunking(t, a, false)), "") {
			return e.Finish(sig, nil, sc)
		}
	}
	// zero-length chunks in every position of a drawn chunking
	base := gen.DrawChunking(t, a, false)
	for i := 0; i <= len(base.Chunks); i++ {
		ck := gen.Chunking{}
		ck.Chunks = append(ck.Chunks, base.Chunks[:i]...)
		if i == len(base.Chunks) {
			// a trailing zero-length final chunk needs the previous one to be non-final: handled by stepsFromChunking
			ck.Chunks = append(ck.Chunks, gen.Chunk{})
		} else {
			ck.Chunks = append(ck.Chunks, gen.Chunk{})
			ck.Chunks = append(ck.Chunks, base.Chunks[i:]...)
		}
		if a.Kind == rec.KArrayBegin && a.AT == events.ArrayTypeBit && i == len(base.Chunks) && a.Elems%8 != 0 {
			continue // a non-final chunk of a bit array must hold a multiple of 8 bits
		}
		if !check(stepsFromChunking(a, ck), "") {
			return e.Finish(sig, nil, sc)
		}
	}

	// faulty schedules -----------------------------------------------------
	nf := 8
	if e.Thorough() {
		nf = 20
	}
	for i := 0; i < nf; i++ {
		steps := stepsFromChunking(a, gen.DrawChunking(t, a, false))
		fault := ""
		arr := a
		switch t.Intn("fault-kind", 8) {
		case 7: // media type that is not valid UTF-8
			if a.Kind == rec.KMediaBegin {
				arr.Media = []string{"a/\xff", "\xc3", "text/\xed\xa0\x80"}[t.Intn("fault-mediatype", 3)]
				fault = "invalid-utf8-media-type"
			}
		case 0: // under-delivery: drop or shorten one data event
			if j := pickData(t, steps); j >= 0 {
				fault = "under-delivery"
				cut := 1 + t.Intn("fault-n", len(steps[j].Data))
				if cut == len(steps[j].Data) {
					steps = append(steps[:j:j], steps[j+1:]...)
				} else {
					steps[j].Data = steps[j].Data[:len(steps[j].Data)-cut]
				}
			}
		case 1: // over-delivery
			if j := pickData(t, steps); j >= 0 {
				fault = "over-delivery"
				steps[j].Data = append(append([]byte(nil), steps[j].Data...), t.Bytes("fault-extra", 1+t.Small("fault-n", 4))...)
			}
		case 2: // last chunk claims more follow
			for j := len(steps) - 1; j >= 0; j-- {
				if steps[j].Chunk {
					steps[j].More = true
					fault = "missing-final-chunk"
					break
				}
			}
		case 3: // chunk boundary inside a character
			if stringLike(a) {
				if st, ok := splitCharAcrossChunks(t, a); ok {
					steps, fault = st, "chunk-ends-inside-char"
				}
			}
		case 4: // invalid UTF-8 byte substituted
			if stringLike(a) {
				if j := pickData(t, steps); j >= 0 {
					d := append([]byte(nil), steps[j].Data...)
					d[t.Intn("fault-at", len(d))] = []byte{0xff, 0xc0, 0x80, 0xed, 0xf8, 0xbf}[t.Intn("fault-byte", 6)]
					steps[j].Data = d
					fault = "invalid-utf8-byte"
				}
			}
		case 5: // data after the final chunk completed
			steps = append(steps, arrayStep{Data: t.Bytes("fault-extra", 1+t.Small("fault-n", 3))})
			fault = "data-after-final-chunk"
		case 6: // declared length differs from delivered (chunk header wrong)
			for j := range steps {
				if steps[j].Chunk && t.Bool("fault-this-chunk") {
					if t.Bool("fault-longer") || steps[j].Elems == 0 {
						steps[j].Elems += uint64(1 + t.Small("fault-n", 9))
					} else {
						steps[j].Elems--
					}
					fault = "chunk-header-length-wrong"
					break
				}
			}
		}
		if fault == "" {
			continue
		}
		if !checkArr(arr, steps, fault) {
			return e.Finish(sig, nil, sc)
		}
	}
	// whole-array event forms (OnArray, OnStringlikeArray, OnMedia, OnCustom*):
	// the same acceptor applied to the same bytes as one final chunk
	for i := 0; i < 3; i++ {
		arr := a
		fault := ""
		if i > 0 && len(a.Payload) > 0 && stringLike(a) {
			p := append([]byte(nil), a.Payload...)
			p[t.Intn("fault-at", len(p))] = []byte{0xff, 0xc0, 0x80, 0xed, 0xf8, 0xbf}[t.Intn("fault-byte", 6)]
			arr.Payload = p
			fault = "invalid-utf8-byte"
		} else if i > 0 && a.Kind == rec.KMediaBegin {
			arr.Media = []string{"a/\xff", "\xc3"}[i-1]
			fault = "invalid-utf8-media-type"
		} else if i > 0 {
			break
		}
		want, why := referenceAccepts(arr, stepsFromChunking(arr, gen.OneChunk(arr)))
		if pos == 6 && want {
			want, why = false, "the marker identifier is already in use"
		}
		whole := gen.WholeArray(arr)
		if i == 2 && whole[0].K == rec.KArray && stringLike(arr) {
			whole[0].K = rec.KStringlikeArray
		}
		got, _, p := c11DeliverEvents(e, pos, whole, cfg)
		e.Seen(fault != "", sig, "whole", i, fault)
		if fault != "" {
			e.Count("fault:"+fault+"(whole-array event)", 1)
		}
		if p != nil {
			e.Fail("panic-escaped", fmt.Sprintf("entry=RulesEventReceiver site=%s", p.Frame), p.Value)
		} else if got != want {
			feat := map[string]bool{"whole-array-event": true, "string-like": stringLike(arr)}
			if fault != "" {
				feat["fault:"+fault] = true
			}
			if !e.Failed() {
				sc.Steps, sc.Fault = []string{whole[0].String()}, fault
				sc.Verdicts = fmt.Sprintf("validator accept=%v, reference accept=%v (%s)", got, want, why)
			}
			e.Fail("verdict-mismatch", fmt.Sprintf("kind=%s features=%s", kindName(arr), Features(feat)), fmt.Sprintf("validator accept=%v, reference accept=%v (%s)", got, want, why))
		}
	}
	// a whole-array event whose DECLARED element count does not match the data
	// it carries: the chunked form of the same declaration and bytes is
	// rejected (declared != received), so the whole form must be as well
	if a.Kind == rec.KArrayBegin && a.AT != events.ArrayTypeBit && len(a.Payload) > 0 {
		whole := gen.WholeArray(a)
		if whole[0].K == rec.KArray {
			if t.Bool("count-fault-less") && whole[0].U > 1 {
				whole[0].U--
			} else {
				whole[0].U += 1 + uint64(t.Intn("count-fault-more", 3))
			}
			got, _, p := c11DeliverEvents(e, pos, whole, cfg)
			e.Seen(true, sig, "whole-wrong-count", whole[0].U)
			e.Count("fault:declared-count-differs(whole-array event)", 1)
			if p != nil {
				e.Fail("panic-escaped", fmt.Sprintf("entry=RulesEventReceiver site=%s", p.Frame), p.Value)
			} else if got {
				feat := map[string]bool{"whole-array-event": true, "string-like": stringLike(a), "fault:declared-count-differs": true}
				if !e.Failed() {
					sc.Steps, sc.Fault = []string{whole[0].String()}, "declared-count-differs"
					sc.Verdicts = "validator accept=true, reference accept=false (declared element count differs from the data carried)"
				}
				e.Fail("verdict-mismatch", fmt.Sprintf("kind=%s features=%s", kindName(a), Features(feat)), "validator accepted a whole-array event whose declared element count differs from its data")
			}
		}
	}
	return e.Finish(sig, sc, sc)
}

func kindName(a gen.Array) string {
	switch a.Kind {
	case rec.KMediaBegin:
		return "media"
	case rec.KCustomBegin:
		return "custom-" + map[bool]string{true: "text", false: "binary"}[a.AT == events.ArrayTypeCustomText]
	}
	return a.AT.String()
}

func stepStrings(steps []arrayStep) []string {
	out := make([]string, len(steps))
	for i, s := range steps {
		out[i] = s.String()
	}
	return out
}

func pickData(t *tape.Tape, steps []arrayStep) int {
	var idx []int
	for i, s := range steps {
		if !s.Chunk && len(s.Data) > 0 {
			idx = append(idx, i)
		}
	}
	if len(idx) == 0 {
		return -1
	}
	return idx[t.Intn("fault-which", len(idx))]
}

func countChunks(steps []arrayStep) int {
	n := 0
	for _, s := range steps {
		if s.Chunk {
			n++
		}
	}
	return n
}

func hasZeroChunk(steps []arrayStep) bool {
	for _, s := range steps {
		if s.Chunk && s.Elems == 0 {
			return true
		}
	}
	return false
}

// splitsInsideChar: some data event of a string-like array ends inside a
// multi-byte character.
func splitsInsideChar(a gen.Array, steps []arrayStep) bool {
	if !stringLike(a) {
		return false
	}
	off := 0
	for _, s := range steps {
		if s.Chunk {
			continue
		}
		off += len(s.Data)
		if off < len(a.Payload) && a.Payload[off]&0xc0 == 0x80 {
			return true
		}
	}
	return false
}

// splitCharAcrossChunks builds a two-chunk schedule whose boundary falls inside
// a multi-byte character of the payload.
func splitCharAcrossChunks(t *tape.Tape, a gen.Array) ([]arrayStep, bool) {
	var inside []int
	for i := 1; i < len(a.Payload); i++ {
		if a.Payload[i]&0xc0 == 0x80 {
			inside = append(inside, i)
		}
	}
	if len(inside) == 0 {
		return nil, false
	}
	k := inside[t.Intn("fault-at", len(inside))]
	n := len(a.Payload)
	return []arrayStep{
		{Chunk: true, Elems: uint64(k), More: true}, {Data: a.Payload[:k]},
		{Chunk: true, Elems: uint64(n - k), More: false}, {Data: a.Payload[k:]},
	}, true
}
