package scen

import (
	"bytes"
	"fmt"
	"strings"

	"verifsim/gen"
	"verifsim/tape"
)

// C08, scaling clause: "at most a fixed multiple of the document's length".
// A fixed per-byte constant large enough for every benign construct (a few KiB
// per input byte for the CTE parser) cannot see an algorithm whose cost grows
// with the SQUARE of the document until the document has many megabytes. This
// mode measures the same construct at two sizes, n and 4n: a cost that is
// linear in the length grows about four-fold, a quadratic one sixteen-fold.
//
// Oracle: alloc(4n) <= 6 * alloc(n) + 4 MiB. No constant of the library is
// mirrored; the factor 6 leaves room for allocator size classes and buffer
// doubling, the additive term for the fixed costs of error paths.

type scaleFamily struct {
	name   string
	format gen.Format
	build  func(n int) []byte // a document of roughly n bytes
}

func digits(n int) string { return strings.Repeat("7", n) }

func cbeDoc(parts ...[]byte) []byte {
	return bytes.Join(append([][]byte{{0x81, 0x00}}, parts...), nil)
}

var scaleFamilies = []scaleFamily{
	{"cte-list-of-small-integers", gen.CTE, func(n int) []byte { return []byte("c0\n[" + strings.Repeat("1 ", n/2) + "]") }},
	{"cte-map-of-small-entries", gen.CTE, func(n int) []byte {
		var sb strings.Builder
		sb.WriteString("c0\n{")
		for i := 0; sb.Len() < n; i++ {
			fmt.Fprintf(&sb, "%d=1 ", i)
		}
		sb.WriteString("}")
		return []byte(sb.String())
	}},
	{"cte-long-decimal-integer", gen.CTE, func(n int) []byte { return []byte("c0\n" + digits(n)) }},
	{"cte-long-negative-integer", gen.CTE, func(n int) []byte { return []byte("c0\n-" + digits(n)) }},
	{"cte-long-hex-integer", gen.CTE, func(n int) []byte { return []byte("c0\n0x" + digits(n)) }},
	{"cte-long-float-mantissa", gen.CTE, func(n int) []byte { return []byte("c0\n1." + digits(n)) }},
	{"cte-long-hex-float-mantissa", gen.CTE, func(n int) []byte { return []byte("c0\n0x1." + digits(n) + "p1") }},
	{"cte-long-plain-string", gen.CTE, func(n int) []byte { return []byte("c0\n\"" + strings.Repeat("abcdefgh", n/8) + "\"") }},
	{"cte-string-of-escapes", gen.CTE, func(n int) []byte { return []byte("c0\n\"" + strings.Repeat("line\\n", n/6) + "\"") }},
	{"cte-string-of-unicode-escapes", gen.CTE, func(n int) []byte { return []byte("c0\n\"" + strings.Repeat("a\\[1f600]", n/9) + "\"") }},
	{"cte-many-backward-references", gen.CTE, func(n int) []byte { return []byte("c0\n[&a:1 " + strings.Repeat("$a ", n/3) + "]") }},
	{"cte-many-forward-references", gen.CTE, func(n int) []byte { return []byte("c0\n[" + strings.Repeat("$a ", n/3) + "&a:1]") }},
	{"cte-record-type-and-record", gen.CTE, func(n int) []byte {
		var keys, vals strings.Builder
		for i := 0; keys.Len() < n/2; i++ {
			fmt.Fprintf(&keys, "%d ", 100000+i)
			fmt.Fprintf(&vals, "%d ", 100000+i)
		}
		return []byte("c0\n@a<" + keys.String() + "> @a{" + vals.String() + "}")
	}},
	{"cte-many-comments", gen.CTE, func(n int) []byte { return []byte("c0\n[" + strings.Repeat("/* c */ 1 ", n/10) + "]") }},
	{"cte-one-long-comment", gen.CTE, func(n int) []byte { return []byte("c0\n[/* " + strings.Repeat("comment ", n/8) + "*/ 1]") }},
	{"cte-typed-array-of-bytes", gen.CTE, func(n int) []byte { return []byte("c0\n@u8x[" + strings.Repeat("7f ", n/3) + "]") }},
	{"cte-nested-lists", gen.CTE, func(n int) []byte {
		d := n / 2
		if d > 900 {
			d = 900
		}
		inner := strings.Repeat("1 ", (n-2*d)/2)
		return []byte("c0\n" + strings.Repeat("[", d) + inner + strings.Repeat("]", d))
	}},
	{"cbe-list-of-small-integers", gen.CBE, func(n int) []byte { return cbeDoc([]byte{0x9a}, bytes.Repeat([]byte{0x01}, n), []byte{0x9b}) }},
	{"cbe-many-short-strings", gen.CBE, func(n int) []byte { return cbeDoc([]byte{0x9a}, bytes.Repeat([]byte{0x83, 'a', 'b', 'c'}, n/4), []byte{0x9b}) }},
	{"cbe-many-backward-references", gen.CBE, func(n int) []byte {
		// marker "a" -> 1, then n/3 references to it
		return cbeDoc([]byte{0x9a, 0x7f, 0xf0, 0x01, 'a', 0x01}, bytes.Repeat([]byte{0x77, 0x01, 'a'}, n/3), []byte{0x9b})
	}},
	{"cbe-many-forward-references", gen.CBE, func(n int) []byte {
		return cbeDoc([]byte{0x9a}, bytes.Repeat([]byte{0x77, 0x01, 'a'}, n/3), []byte{0x7f, 0xf0, 0x01, 'a', 0x01, 0x9b})
	}},
	{"cbe-one-array-in-one-element-chunks", gen.CBE, func(n int) []byte {
		return cbeDoc([]byte{0x93}, bytes.Repeat([]byte{0x03, 'a'}, n/2), []byte{0x02, 'z'})
	}},
	{"cbe-map-of-small-entries", gen.CBE, func(n int) []byte {
		b := []byte{0x99}
		for i := 0; len(b) < n; i++ {
			b = append(b, 0x6a, byte(i), byte(i>>8), 0x01) // 16-bit positive key, value 1
		}
		return cbeDoc(b, []byte{0x9b})
	}},
}

type c08ScaleScenario struct {
	Family  string  `json:"document_family"`
	Format  string  `json:"format"`
	Entry   string  `json:"entry_point"`
	Cfg     CfgDesc `json:"config"`
	SmallN  int     `json:"small_document_bytes"`
	LargeN  int     `json:"large_document_bytes"`
	SmallA  uint64  `json:"small_document_alloc"`
	LargeA  uint64  `json:"large_document_alloc"`
	SmallOK bool    `json:"small_document_accepted"`
	LargeOK bool    `json:"large_document_accepted"`
	Head    string  `json:"document_head"`
}

func runC08Scaling(e *Env, t *tape.Tape) Outcome {
	fam := scaleFamilies[t.Intn("scale-family", len(scaleFamilies))]
	n := []int{16384, 49152, 4096}[t.Intn("scale-size", 3)]
	cfgd := CfgDesc{EnforceRules: !t.Chance("cfg-norules", 1, 3)}
	cfgd.MaxArray = 0
	cfg := cfgd.Build()
	entries := EntriesFor(fam.format)
	en := entries[t.Intn("entry", len(entries))]
	fromDoc := t.Bool("from-document")
	small, large := fam.build(n), fam.build(4*n)
	sc := &c08ScaleScenario{Family: fam.name, Format: fam.format.String(), Entry: en.String(), Cfg: cfgd, SmallN: len(small), LargeN: len(large), Head: string(clipBytes(small, 48))}
	sig := Hash("c08-scale", fam.name, n, en, cfgd, fromDoc)
	e.Count("scaling_measurements", 1)
	e.Count("fault:size-scaling/"+fam.name, 1)

	// warm the process-wide parser caches for this construct, then measure
	measured(e, en, fam.build(256), fromDoc, nil, cfg, cfgd.EnforceRules, "ref:")
	aS, stepsS, rS := measuredOnce(e, en, small, fromDoc, nil, cfg, cfgd.EnforceRules, "")
	if rS.Panic != nil {
		e.Fail("panic-escaped", fmt.Sprintf("entry=%s site=%s", en, rS.Panic.Frame), rS.Panic.Value)
		return e.Finish(sig, nil, sc)
	}
	aL, stepsL, rL := measuredOnce(e, en, large, fromDoc, nil, cfg, cfgd.EnforceRules, "")
	if rL.Panic != nil {
		e.Fail("panic-escaped", fmt.Sprintf("entry=%s site=%s", en, rL.Panic.Frame), rL.Panic.Value)
		return e.Finish(sig, nil, sc)
	}
	sc.SmallA, sc.LargeA, sc.SmallOK, sc.LargeOK = aS, aL, rS.Err == nil, rL.Err == nil
	e.Seen(true, sig)
	e.Count("measured_decodes", 2)
	e.Count("work_steps", stepsS+stepsL)
	if rS.Err == nil && rL.Err == nil {
		e.Count("scaling_documents_accepted", 1)
	} else {
		e.Count("scaling_documents_rejected/"+fam.name, 1)
	}
	if aL > 6*aS+4<<20 {
		e.Fail("alloc-superlinear", fmt.Sprintf("family=%s", fam.name),
			fmt.Sprintf("%s: a %d-byte document allocates %d bytes, the same construct at %d bytes allocates %d bytes (x%.1f for x%.1f the length; bound 6x + 4 MiB)",
				fam.name, len(small), aS, len(large), aL, float64(aL)/float64(aS+1), float64(len(large))/float64(len(small))))
	}
	return e.Finish(sig, sc, sc)
}
