// Package scen holds one scenario per claimed property plus the shared run
// environment (operation bracketing for the watchdog, panic capture, counters).
package scen

import (
	"fmt"
	"hash/fnv"
	"runtime"
	"runtime/debug"
	"sort"
	"strings"
	"sync/atomic"
	"time"

	"verifsim/tape"
)

// Outcome is what one run reports.
type Outcome struct {
	Class    string `json:"class,omitempty"` // "" = property held on this run
	Locator  string `json:"loc,omitempty"`
	Detail   string `json:"detail,omitempty"`
	Evals    int    `json:"evals"`    // library executions performed
	Distinct int    `json:"distinct"` // distinct non-trivial cases among them (measured by the scenario)
	Sig      uint64 `json:"sig"`      // signature of the run's scenario (document, config, plan family) for cross-run de-duplication
	Sample   interface{} `json:"sample,omitempty"`
	Scenario interface{} `json:"scenario,omitempty"` // human-readable decode of the tape (always filled on violation)
	Others   []Failure   `json:"others,omitempty"`   // further distinct (class, locator) failures of the same run
	MustExit bool        `json:"must_exit,omitempty"` // simulated threads are stuck: the worker process cannot be reused
}

// Failure is one violated check inside a run.
type Failure struct {
	Class   string `json:"class"`
	Locator string `json:"loc"`
	Detail  string `json:"detail"`
}

// Env is handed to a scenario for one run.
type Env struct {
	T        *tape.Tape
	Tier     string
	Ctr      map[string]int64
	WantSample bool

	// watchdog bracket
	opName  atomic.Value // string
	opStart atomic.Int64 // unix nanos, 0 = no operation in progress
	Gid     int64

	BeforeOp func()             // flushes crash-safe recording (set by the worker when needed)
	PhaseFn  func(name string) // tells the parent which phase a process death belongs to

	failures []Failure
	evals    int
	distinct map[uint64]struct{}
}

func NewEnv(t *tape.Tape, tier string) *Env {
	e := &Env{T: t, Tier: tier, Ctr: map[string]int64{}, distinct: map[uint64]struct{}{}}
	e.opName.Store("")
	return e
}

func (e *Env) Thorough() bool { return e.Tier == "thorough" }

func (e *Env) Count(name string, n int) {
	if n != 0 {
		e.Ctr[name] += int64(n)
	}
}

func (e *Env) CountMap(prefix string, m map[string]int) {
	for k, v := range m {
		e.Ctr[prefix+k] += int64(v)
	}
}

// Seen records one evaluated case; nontrivial cases are counted as distinct by hash.
func (e *Env) Seen(nontrivial bool, parts ...interface{}) {
	e.evals++
	if !nontrivial {
		return
	}
	h := fnv.New64a()
	fmt.Fprint(h, parts...)
	e.distinct[h.Sum64()] = struct{}{}
}

func (e *Env) Evals() int    { return e.evals }
func (e *Env) Distinct() int { return len(e.distinct) }

// Phase announces "ref" (benign reference execution) or "main".
func (e *Env) Phase(name string) {
	if e.PhaseFn != nil {
		e.PhaseFn(name)
	}
}

// CurrentOp is read by the watchdog.
func (e *Env) CurrentOp() (string, time.Duration) {
	st := e.opStart.Load()
	if st == 0 {
		return "", 0
	}
	return e.opName.Load().(string), time.Duration(time.Now().UnixNano() - st)
}

// PanicInfo describes a panic that escaped a library entry point.
type PanicInfo struct {
	Value string
	Frame string // first frame inside the library (or a dependency) on the panicking stack
	Stack string
}

// Op runs one public library call under the watchdog bracket. A panic that
// escapes f is captured (it is a finding for C07-style invariants; other
// scenarios treat it according to their oracle).
func (e *Env) Op(name string, f func()) (p *PanicInfo) {
	if e.BeforeOp != nil {
		e.BeforeOp()
	}
	e.opName.Store(name)
	e.opStart.Store(time.Now().UnixNano())
	defer func() {
		e.opStart.Store(0)
		if r := recover(); r != nil {
			st := string(debug.Stack())
			p = &PanicInfo{Value: fmt.Sprint(r), Stack: st, Frame: FirstLibFrame(st, true)}
		}
	}()
	f()
	return nil
}

const libPrefix = "github.com/kstenerud/"

var depPrefixes = []string{"github.com/kstenerud/", "github.com/antlr/", "github.com/cockroachdb/apd"}

// FirstLibFrame returns the first function on a stack dump that belongs to the
// library or one of its dependencies. afterPanic skips to below "panic(".
func FirstLibFrame(stack string, afterPanic bool) string {
	lines := strings.Split(stack, "\n")
	start := 0
	if afterPanic {
		for i, l := range lines {
			if strings.HasPrefix(l, "panic(") {
				start = i + 1
			}
		}
	}
	first := ""
	for _, l := range lines[start:] {
		if strings.HasPrefix(l, "\t") || l == "" {
			continue
		}
		fn := l
		if i := strings.LastIndex(fn, "("); i > 0 {
			fn = fn[:i]
		}
		for _, p := range depPrefixes {
			if strings.HasPrefix(fn, p) {
				fn = strings.TrimPrefix(fn, "github.com/kstenerud/go-concise-encoding/")
				if first == "" {
					first = fn
				}
				if strings.HasPrefix(l, libPrefix+"go-concise-encoding/") {
					return fn
				}
			}
		}
	}
	return first
}

// Violation helpers ---------------------------------------------------------

// Fail records a violated check. A run may report several distinct
// (class, locator) pairs so that one frequent failure cannot hide another.
func (e *Env) Fail(class, locator, detail string) {
	for _, f := range e.failures {
		if f.Class == class && f.Locator == locator {
			return
		}
	}
	if len(e.failures) < MaxFailuresPerRun {
		e.failures = append(e.failures, Failure{class, locator, detail})
	}
}

const MaxFailuresPerRun = 8

func (e *Env) Failed() bool { return len(e.failures) > 0 }

// FailureBudgetLeft reports whether a scenario that can continue after a
// failure should keep looking for different ones.
func (e *Env) FailureBudgetLeft() bool { return len(e.failures) < MaxFailuresPerRun }

func (e *Env) Finish(sig uint64, sample interface{}, scenario interface{}) Outcome {
	o := Outcome{Evals: e.evals, Distinct: len(e.distinct), Sig: sig}
	if len(e.failures) > 0 {
		o.Class, o.Locator, o.Detail = e.failures[0].Class, e.failures[0].Locator, e.failures[0].Detail
		o.Others = e.failures[1:]
		o.Scenario = scenario
	}
	if e.WantSample || len(e.failures) > 0 {
		o.Sample = sample
	}
	return o
}

func Hash(parts ...interface{}) uint64 {
	h := fnv.New64a()
	fmt.Fprint(h, parts...)
	return h.Sum64()
}

func Features(set map[string]bool) string {
	var fs []string
	for k, v := range set {
		if v {
			fs = append(fs, k)
		}
	}
	sort.Strings(fs)
	if len(fs) == 0 {
		return "none"
	}
	return strings.Join(fs, "+")
}

// GID of the calling goroutine.
func GID() int64 {
	var buf [64]byte
	n := runtime.Stack(buf[:], false)
	s := buf[len("goroutine "):n]
	var id int64
	for _, c := range s {
		if c < '0' || c > '9' {
			break
		}
		id = id*10 + int64(c-'0')
	}
	return id
}

// Scenario is one property's run function.
type Scenario func(e *Env) Outcome

var Registry = map[string]Scenario{}
