package scen

import (
	"bytes"
	"fmt"

	"github.com/kstenerud/go-concise-encoding/ce"
	"github.com/kstenerud/go-concise-encoding/ce/events"
	"github.com/kstenerud/go-concise-encoding/configuration"
	"github.com/kstenerud/go-concise-encoding/rules"

	"verifsim/eq"
	"verifsim/gen"
	"verifsim/rec"
	"verifsim/simio"
	"verifsim/tape"
)

// C16: a reused (reset) encoder, decoder, marshaler, unmarshaler or validator
// gives, for each document or value of a sequence, the same output, result and
// error as a freshly created instance - including sequences in which earlier
// calls failed.
//
// History space: drawn operation sequences on one long-lived instance: valid
// values/documents/streams, unsupported kinds (alone, nested, repeated),
// corrupted or truncated documents, limit violations, I/O faults in the middle
// of an operation, producer aborts. Reference model: a fresh instance with
// the same configuration executing the same operation with identical
// simulated reader/writer plans.

func init() { Registry["C16"] = runC16 }

type c16Scenario struct {
	Instance string   `json:"instance"`
	Cfg      CfgDesc  `json:"config"`
	History  []string `json:"history"`
	Failing  int      `json:"failing_op_index"`
}

type opResult struct {
	ok    bool // err == nil
	out   []byte
	val   interface{}
	evs   []rec.Ev
	panic *PanicInfo
	at    int // event index at which an event-driven instance rejected (-1 none)
}

func sameResult(a, b opResult) (bool, string) {
	if (a.panic != nil) != (b.panic != nil) {
		return false, "one side let a panic escape"
	}
	if a.ok != b.ok {
		return false, fmt.Sprintf("error-ness differs: reused ok=%v, fresh ok=%v", a.ok, b.ok)
	}
	if !bytes.Equal(a.out, b.out) {
		return false, fmt.Sprintf("bytes written differ: reused %x, fresh %x", clipBytes(a.out, 200), clipBytes(b.out, 200))
	}
	if a.at != b.at {
		return false, fmt.Sprintf("rejected at event %d (reused) vs %d (fresh)", a.at, b.at)
	}
	if x, y := rec.Join(a.evs), rec.Join(b.evs); x != y {
		return false, fmt.Sprintf("events differ: reused [%s], fresh [%s]", clip(x), clip(y))
	}
	if ok, why := eq.Equal(a.val, b.val); !ok {
		return false, "value differs: " + why
	}
	return true, ""
}

func runC16(e *Env) Outcome {
	t := e.T
	kind := t.Intn("instance", 5)
	cfgd := DrawCfg(t, false)
	if t.Chance("small-doc-limit", 1, 4) {
		cfgd.MaxDoc = []uint64{40, 120, 400}[t.Intn("doc-limit", 3)]
	}
	cfgd.Recursion = t.Bool("cfg-recursion")
	f := gen.Format(t.Intn("format", 2))
	nops := 2 + t.Intn("nops", 5)
	if e.Thorough() {
		nops = 2 + t.Intn("nops-thorough", 11)
	}
	switch kind {
	case 0:
		return c16Marshaler(e, f, cfgd, nops)
	case 1:
		return c16Unmarshaler(e, f, cfgd, nops)
	case 2:
		return c16Encoder(e, f, cfgd, nops)
	case 3:
		return c16Decoder(e, f, cfgd, nops)
	}
	return c16Rules(e, cfgd, nops)
}

func fname(f gen.Format) string {
	if f == gen.CBE {
		return "CBE"
	}
	return "CTE"
}

// drive runs the history: for each op, reused first then fresh, and compares.
func c16Drive(e *Env, sc *c16Scenario, sigp *uint64, n int, step func(i int) (desc string, failedOp bool, reused, fresh func() opResult)) Outcome {
	failedBefore := false
	for i := 0; i < n; i++ {
		desc, failedOp, reused, fresh := step(i)
		sc.History = append(sc.History, desc)
		a := reused()
		sig := *sigp
		e.Phase("ref")
		b := fresh()
		e.Phase("main")
		nontrivial := i > 0
		e.Seen(nontrivial, sig, i, fmt.Sprint(sc.History))
		e.Count("operations", 1)
		if failedBefore {
			e.Count("probe:operation_after_a_failed_one", 1)
		}
		if b.panic != nil {
			// the fresh instance itself lets a panic escape: a C07 matter
			e.Count("reference_unusable", 1)
			return e.Finish(sig, nil, sc)
		}
		if ok, why := sameResult(a, b); !ok {
			sc.Failing = i
			feat := map[string]bool{"after-failed-op": failedBefore, "first-op": i == 0}
			cls := "result-mismatch"
			if a.panic != nil {
				cls = "panic-escaped"
				why = a.panic.Value
				e.Fail(cls, fmt.Sprintf("instance=%s site=%s", sc.Instance, a.panic.Frame), why)
			} else {
				e.Fail(cls, fmt.Sprintf("instance=%s op=%s features=%s", sc.Instance, opKind(desc), Features(feat)), fmt.Sprintf("op %d (%s): %s", i, desc, why))
			}
			return e.Finish(sig, nil, sc)
		}
		if !b.ok || failedOp {
			failedBefore = true
		}
	}
	return e.Finish(*sigp, sc, sc)
}

func opKind(desc string) string {
	for i := 0; i < len(desc); i++ {
		if desc[i] == ':' || desc[i] == ' ' {
			return desc[:i]
		}
	}
	return desc
}

// ---------------------------------------------------------------------------

func c16Marshaler(e *Env, f gen.Format, cfgd CfgDesc, n int) Outcome {
	t := e.T
	cfg := cfgd.Build()
	sc := &c16Scenario{Instance: fname(f) + "Marshaler", Cfg: cfgd}
	sig := Hash("c16m", f, cfgd)
	mk := func() ce.Marshaler {
		if f == gen.CBE {
			return ce.NewCBEMarshaler(cfg)
		}
		return ce.NewCTEMarshaler(cfg)
	}
	reusedInst := mk()
	var prev *gen.Val
	var prevDraws []uint64
	var prevVo gen.ValOpts
	return c16Drive(e, sc, &sig, n, func(i int) (string, bool, func() opResult, func() opResult) {
		vo := gen.DrawValOpts(t)
		var val gen.Val
		what := t.Intn("op-kind", 6)
		// Every use gets its own freshly built copy of the value (rebuilt from
		// the recorded draws): no object is ever marshaled twice, so a marshaler
		// that modifies its argument (a matter for another property) cannot
		// make the reused and the fresh side see different inputs.
		var draws []uint64
		wrap := false
		switch {
		case what == 0 && prev != nil:
			// the same value again (same types: cache hits, repeated unsupported kinds)
			draws, vo = prevDraws, prevVo
		case what == 5 && prev != nil:
			// a pointer to the previous value: a new top-level type whose element
			// type this instance has already met (successfully or not)
			draws, vo, wrap = prevDraws, prevVo, true
		default:
			if what == 1 || what == 2 {
				vo.Unsupported = true
			}
			start := len(t.Rec)
			gen.DrawValue(t, vo)
			for _, r := range t.Rec[start:] {
				draws = append(draws, r.V)
			}
		}
		mkVal := func() gen.Val {
			v := gen.DrawValue(tape.Replay(draws), vo)
			if wrap {
				v.V, v.Desc = gen.PointerTo(v.V), "*"+v.Desc
			}
			return v
		}
		val = mkVal()
		prev, prevDraws, prevVo = &val, draws, vo
		plan := simio.WriterPlan{}
		desc := "marshal:" + val.Desc
		if !val.Supported {
			desc = "marshal-unsupported:" + val.Desc
			e.Count("fault:unsupported-kind-value", 1)
		}
		if t.Chance("writer-fault", 1, 4) {
			plan.Faults = []simio.WriteFault{{Call: t.Intn("fault-call", 12), Byte: -1, Partial: t.Bool("fault-partial")}}
			desc = "marshal-writefault:" + val.Desc
		}
		flavour := t.Bool("string-writer")
		sig = Hash(sig, desc, flavour)
		run := func(m ce.Marshaler, tag string) opResult {
			w := simio.MakeWriter(flavour, plan)
			var err error
			v := mkVal().V
			p := e.Op(tag+sc.Instance+".Marshal", func() { err = m.Marshal(v, w) })
			if tag == "" {
				e.CountMap("fault:", w.Base().FiredKinds)
				e.Count("writer_calls", w.Base().Calls)
			}
			return opResult{ok: err == nil, out: w.Base().Buf, panic: p, at: -1}
		}
		return desc, len(plan.Faults) > 0, func() opResult { return run(reusedInst, "") }, func() opResult { return run(mk(), "ref:") }
	})
}

func c16Unmarshaler(e *Env, f gen.Format, cfgd CfgDesc, n int) Outcome {
	t := e.T
	cfg := cfgd.Build()
	sc := &c16Scenario{Instance: fname(f) + "Unmarshaler", Cfg: cfgd}
	sig := Hash("c16u", f, cfgd)
	mk := func() ce.Unmarshaler {
		if f == gen.CBE {
			return ce.NewCBEUnmarshaler(cfg)
		}
		return ce.NewCTEUnmarshaler(cfg)
	}
	reusedInst := mk()
	// one or two template types used again and again with different documents:
	// the natural use of a reused unmarshaler
	var typeSpecs []gen.TypeSpec
	for i := 1 + t.Intn("n-typespecs", 2); i > 0; i-- {
		vo := gen.DrawValOpts(t)
		vo.Unsupported = t.Chance("typespec-unsupported", 1, 6)
		typeSpecs = append(typeSpecs, gen.DrawType(t, vo))
	}
	return c16Drive(e, sc, &sig, n, func(i int) (string, bool, func() opResult, func() opResult) {
		o := gen.DrawOpts(t)
		doc, rej := gen.DrawDoc(t, f, o, configurationDefault)
		e.Count("generator_rejects", rej)
		b := doc.Bytes
		desc := "unmarshal-valid"
		failing := false
		tmpl := c07Templates[0]
		kind := t.Intn("op-kind", 8)
		if kind >= 6 {
			// a new value of one of the run's types, marshaled by an unrelated
			// fresh marshaler, unmarshaled into a template of that type
			ts := typeSpecs[t.Intn("typespec", len(typeSpecs))]
			val := ts.NewValue(t)
			var vdoc []byte
			var merr error
			if f == gen.CBE {
				vdoc, merr = ce.MarshalToCBEDocument(val.V, cfg)
			} else {
				vdoc, merr = ce.MarshalToCTEDocument(val.V, cfg)
			}
			if merr == nil && len(vdoc) > 0 {
				b, doc = vdoc, &gen.Doc{Format: f, Bytes: vdoc}
				desc = "unmarshal-value:" + ts.Desc
				tmpl.name, tmpl.mk = ts.Desc, val.New
				if kind == 7 && len(b) > 3 {
					k := 1 + t.Intn("cut", len(b)-1)
					b = b[:k]
					desc = fmt.Sprintf("unmarshal-value-truncated:%d:%s", k, ts.Desc)
					failing = true
					e.Count("fault:truncation", 1)
				}
			}
		}
		switch kind {
		case 0:
			fs := simio.DrawStorageFaults(t, 1+t.Intn("n-sf", 2), len(b), lengthOffsets(doc))
			b = simio.Apply(b, fs)
			desc = fmt.Sprintf("unmarshal-corrupted:%v", fs)
			failing = true
			e.Count("fault:storage-corruption", 1)
		case 1:
			if len(b) > 3 {
				k := 1 + t.Intn("cut", len(b)-1)
				b = b[:k]
				desc = fmt.Sprintf("unmarshal-truncated:%d", k)
				failing = true
				e.Count("fault:truncation", 1)
			}
		}
		if kind < 6 && t.Chance("typed-template", 1, 3) {
			tmpl = c07Templates[t.Intn("template", len(c07Templates))]
			desc += " template=" + tmpl.name
		}
		plan := simio.DrawReaderPlan(t, len(b))
		if t.Chance("reader-fault", 1, 5) {
			plan.Faults = []simio.ReadFault{{At: t.Intn("fault-at", len(b)+1), WithData: t.Bool("fault-withdata")}}
			desc += " readfault"
			failing = true
		}
		fromDoc := t.Bool("from-document")
		desc += fmt.Sprintf(" len=%d", len(b))
		sig = Hash(sig, b, desc)
		run := func(u ce.Unmarshaler, tag string) opResult {
			var v interface{}
			var err error
			var p *PanicInfo
			if fromDoc && len(plan.Faults) == 0 {
				p = e.Op(tag+sc.Instance+".UnmarshalFromDocument", func() { v, err = u.UnmarshalFromDocument(b, tmpl.mk()) })
			} else {
				r := simio.NewReader(b, plan)
				p = e.Op(tag+sc.Instance+".Unmarshal", func() { v, err = u.Unmarshal(r, tmpl.mk()) })
				if tag == "" {
					e.CountMap("fault:", r.FiredKinds)
					e.Count("reader_calls", r.Calls)
				}
			}
			return opResult{ok: err == nil, val: v, panic: p, at: -1}
		}
		return desc, failing, func() opResult { return run(reusedInst, "") }, func() opResult { return run(mk(), "ref:") }
	})
}

func c16Encoder(e *Env, f gen.Format, cfgd CfgDesc, n int) Outcome {
	t := e.T
	cfg := cfgd.Build()
	sc := &c16Scenario{Instance: fname(f) + "Encoder", Cfg: cfgd}
	sig := Hash("c16e", f, cfgd)
	mk := func() ce.Encoder {
		if f == gen.CBE {
			return ce.NewCBEEncoder(cfg)
		}
		return ce.NewCTEEncoder(cfg)
	}
	reusedInst := mk()
	return c16Drive(e, sc, &sig, n, func(i int) (string, bool, func() opResult, func() opResult) {
		o := gen.DrawOpts(t)
		o.Chunked = true
		o.ArrayBias = t.Bool("array-bias")
		doc, rej := gen.DrawDoc(t, f, o, configurationDefault)
		e.Count("generator_rejects", rej)
		evs := doc.Events
		desc := "encode-stream"
		failing := false
		plan := simio.WriterPlan{}
		switch t.Intn("op-kind", 4) {
		case 0: // producer abort: stop after event j, then the next document starts
			if len(evs) > 2 {
				j := 1 + t.Intn("abort-at", len(evs)-1)
				desc = fmt.Sprintf("encode-aborted-after:%s(%d of %d)", evs[j-1].K, j, len(evs))
				evs = evs[:j]
				failing = true
				e.Count("fault:producer-abort", 1)
				e.Count("fault:producer-abort-after-"+evs[j-1].K.String(), 1)
			}
		case 1:
			plan.Faults = []simio.WriteFault{{Call: t.Intn("fault-call", 20), Byte: -1}}
			desc = "encode-writefault"
			failing = true
		}
		flavour := t.Bool("string-writer")
		sig = Hash(sig, rec.Join(evs), desc)
		run := func(enc ce.Encoder, tag string) opResult {
			w := simio.MakeWriter(flavour, plan)
			var err error
			at := -1
			p := e.Op(tag+sc.Instance+".On*", func() {
				enc.PrepareToEncode(w)
				var d int
				d, err = gen.Feed(evs, enc, nil)
				if err != nil {
					at = d
				}
			})
			if tag == "" {
				e.CountMap("fault:", w.Base().FiredKinds)
			}
			return opResult{ok: err == nil, out: w.Base().Buf, panic: p, at: at}
		}
		return desc, failing, func() opResult { return run(reusedInst, "") }, func() opResult { return run(mk(), "ref:") }
	})
}

func c16Decoder(e *Env, f gen.Format, cfgd CfgDesc, n int) Outcome {
	t := e.T
	cfg := cfgd.Build()
	universal := t.Chance("universal", 1, 4)
	name := fname(f) + "Decoder"
	if universal {
		name = "CEDecoder(" + fname(f) + " input)"
	}
	sc := &c16Scenario{Instance: name, Cfg: cfgd}
	sig := Hash("c16d", f, cfgd, universal)
	mk := func() ce.Decoder {
		switch {
		case universal:
			return ce.NewCEDecoder(cfg)
		case f == gen.CBE:
			return ce.NewCBEDecoder(cfg)
		}
		return ce.NewCTEDecoder(cfg)
	}
	reusedInst := mk()
	withRules := t.Bool("decoder-rules")
	return c16Drive(e, sc, &sig, n, func(i int) (string, bool, func() opResult, func() opResult) {
		o := gen.DrawOpts(t)
		doc, rej := gen.DrawDoc(t, f, o, configurationDefault)
		e.Count("generator_rejects", rej)
		b := doc.Bytes
		desc := "decode-valid"
		failing := false
		switch t.Intn("op-kind", 5) {
		case 0:
			fs := simio.DrawStorageFaults(t, 1+t.Intn("n-sf", 2), len(b), lengthOffsets(doc))
			b = simio.Apply(b, fs)
			desc = fmt.Sprintf("decode-corrupted:%v", fs)
			failing = true
			e.Count("fault:storage-corruption", 1)
		case 1:
			if len(b) > 3 {
				k := 1 + t.Intn("cut", len(b)-1)
				b = b[:k]
				desc = fmt.Sprintf("decode-truncated:%d", k)
				failing = true
				e.Count("fault:truncation", 1)
			}
		}
		plan := simio.DrawReaderPlan(t, len(b))
		if t.Chance("reader-fault", 1, 5) {
			plan.Faults = []simio.ReadFault{{At: t.Intn("fault-at", len(b)+1), WithData: t.Bool("fault-withdata")}}
			desc += " readfault"
			failing = true
		}
		desc += fmt.Sprintf(" len=%d", len(b))
		sig = Hash(sig, b, desc)
		run := func(d ce.Decoder, tag string) opResult {
			rc := &rec.Recorder{}
			var rcv events.DataEventReceiver = rc
			if withRules {
				rcv = ce.NewRules(rc, cfg)
			}
			r := simio.NewReader(b, plan)
			var err error
			p := e.Op(tag+name+".Decode", func() { err = d.Decode(r, rcv) })
			if tag == "" {
				e.CountMap("fault:", r.FiredKinds)
				e.Count("reader_calls", r.Calls)
			}
			return opResult{ok: err == nil, evs: rc.Evs, panic: p, at: -1}
		}
		return desc, failing, func() opResult { return run(reusedInst, "") }, func() opResult { return run(mk(), "ref:") }
	})
}

// mutateStream makes a (probably) rules-invalid stream out of a valid one.
func mutateStream(t *tape.Tape, evs []rec.Ev) ([]rec.Ev, string) {
	out := append([]rec.Ev(nil), evs...)
	if len(out) < 4 {
		return out, "unchanged"
	}
	i := 2 + t.Intn("mut-at", len(out)-3)
	switch t.Intn("mut-kind", 5) {
	case 0:
		out = append(out[:i:i], out[i+1:]...)
		return out, fmt.Sprintf("drop-event-%d", i)
	case 1:
		out = append(out[:i:i], append([]rec.Ev{out[i]}, out[i:]...)...)
		return out, fmt.Sprintf("duplicate-event-%d", i)
	case 2:
		out = append(out[:i:i], append([]rec.Ev{{K: rec.KEndContainer}}, out[i:]...)...)
		return out, fmt.Sprintf("extra-end-container-at-%d", i)
	case 3:
		out = append(out[:i:i], append([]rec.Ev{{K: rec.KReferenceLocal, S: []byte("nosuchmarker")}}, out[i:]...)...)
		return out, fmt.Sprintf("dangling-reference-at-%d", i)
	}
	out = append(out[:i:i], append([]rec.Ev{{K: rec.KMap}}, out[i:]...)...)
	return out, fmt.Sprintf("unclosed-map-at-%d", i)
}

func c16Rules(e *Env, cfgd CfgDesc, n int) Outcome {
	t := e.T
	cfgd.EnforceRules = true
	if t.Chance("small-limits", 1, 3) {
		cfgd.MaxDepth = []uint64{2, 4}[t.Intn("depth-limit", 2)]
		cfgd.MaxArray = []uint64{8, 40}[t.Intn("array-limit", 2)]
	}
	cfg := cfgd.Build()
	sc := &c16Scenario{Instance: "RulesEventReceiver", Cfg: cfgd}
	sig := Hash("c16r", cfgd)
	reusedRec := &rec.Recorder{}
	reusedInst := rules.NewRules(reusedRec, cfg)
	return c16Drive(e, sc, &sig, n, func(i int) (string, bool, func() opResult, func() opResult) {
		o := gen.DrawOpts(t)
		o.Chunked = true
		var evs []rec.Ev
		for try := 0; try < 5; try++ {
			evs = gen.Stream(t, o)
			if gen.RulesValid(evs, configurationDefault) {
				break
			}
		}
		desc := "validate-stream"
		failing := false
		switch t.Intn("op-kind", 4) {
		case 0:
			var how string
			evs, how = mutateStream(t, evs)
			desc = "validate-invalid:" + how
			failing = true
			e.Count("fault:invalid-stream", 1)
		case 1:
			if len(evs) > 2 {
				j := 1 + t.Intn("abort-at", len(evs)-1)
				desc = fmt.Sprintf("validate-aborted-after:%s(%d of %d)", evs[j-1].K, j, len(evs))
				evs = evs[:j]
				failing = true
				e.Count("fault:producer-abort", 1)
			}
		}
		sig = Hash(sig, rec.Join(evs), desc)
		run := func(r *rules.RulesEventReceiver, rc *rec.Recorder, tag string) opResult {
			var err error
			at := -1
			start := len(rc.Evs)
			p := e.Op(tag+"RulesEventReceiver.On*", func() {
				r.Reset()
				var d int
				d, err = gen.Feed(evs, r, nil)
				if err != nil {
					at = d
				}
			})
			return opResult{ok: err == nil, evs: rc.Evs[start:], panic: p, at: at}
		}
		return desc, failing, func() opResult { return run(reusedInst, reusedRec, "") }, func() opResult {
			rc := &rec.Recorder{}
			return run(rules.NewRules(rc, cfg), rc, "ref:")
		}
	})
}

var _ = configuration.New
