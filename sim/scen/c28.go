package scen

import (
	"fmt"

	"verifsim/eq"
	"verifsim/gen"
	"verifsim/rec"
	"verifsim/simio"
)

// C28: decoding from an io.Reader gives the same result as decoding the same
// bytes from memory, however the reader delivers them.
//
// Schedule space: SimReader delivery plans (stream-defined fragmentation,
// (0,nil) reads, data+EOF, EOF repeated, scratch scribbling). Reference: the
// from-memory twin of the same entry point on fresh instances.

func init() { Registry["C28"] = runC28 }

var templatePool = []struct {
	name string
	mk   func() interface{}
}{
	{"nil", func() interface{} { return nil }},
	{"[]interface{}", func() interface{} { return []interface{}{} }},
	{"map[interface{}]interface{}", func() interface{} { return map[interface{}]interface{}{} }},
	{"map[string]interface{}", func() interface{} { return map[string]interface{}{} }},
	{"[]int", func() interface{} { return []int{} }},
	{"string", func() interface{} { return "" }},
	{"struct", func() interface{} { return struct {
		K1 interface{}
		K2 int
		K3 string
	}{} }},
}

type c28Scenario struct {
	Format   string              `json:"format"`
	Entry    string              `json:"entry"`
	Template string              `json:"template"`
	Cfg      CfgDesc             `json:"config"`
	Rules    bool                `json:"decoder_rules"`
	DocHex   string              `json:"doc_hex"`
	Faults   []simio.StorageFault `json:"storage_faults,omitempty"`
	Plan     interface{}         `json:"failing_plan,omitempty"`
}

func planFeatures(p simio.ReaderPlan, r *simio.SimReader) map[string]bool {
	return map[string]bool{
		"zero-read":   r.ZeroReads > 0,
		"data+eof":    r.EOFData > 0,
		"short-read":  r.ShortReads > 0,
		"scribble":    r.Scribbles > 0,
	}
}

func runC28(e *Env) Outcome {
	t := e.T
	f := gen.Format(t.Intn("format", 2))
	cfgd := DrawCfg(t, false)
	cfg := cfgd.Build()
	o := gen.DrawOpts(t)
	doc, rej := gen.DrawDoc(t, f, o, cfg)
	e.Count("generator_rejects", rej)
	bytes := doc.Bytes
	var faults []simio.StorageFault
	if t.Chance("invalid-doc", 1, 3) {
		faults = simio.DrawStorageFaults(t, 1+t.Intn("n-sf", 2), len(bytes), nil)
		bytes = simio.Apply(bytes, faults)
		e.Count("docs_corrupted", 1)
	}
	entries := EntriesFor(f)
	en := entries[t.Intn("entry", len(entries))]
	tmpl := templatePool[0]
	if en.IsUnmarshal() && t.Chance("typed-template", 1, 3) {
		tmpl = templatePool[t.Intn("template", len(templatePool))]
	}
	withRules := t.Bool("decoder-rules")
	sc := &c28Scenario{Format: f.String(), Entry: en.String(), Template: tmpl.name, Cfg: cfgd, Rules: withRules,
		DocHex: fmt.Sprintf("%x", bytes), Faults: faults}
	sig := Hash("c28", bytes, en, tmpl.name, cfgd, withRules)

	// reference: from memory, fresh instances
	e.Phase("ref")
	ref := CallDocument(e, en, bytes, tmpl.mk(), cfg, withRules, "ref:")
	e.Phase("main")
	if ref.Panic != nil {
		// a C07-class failure of the benign configuration: not a verdict here
		e.Count("reference_unusable", 1)
		return e.Finish(sig, nil, sc)
	}
	e.Count("docs", 1)
	if ref.Err != nil {
		e.Count("docs_reference_rejects", 1)
	}

	check := func(plan simio.ReaderPlan, kind string) bool {
		r := simio.NewReader(bytes, plan)
		got := CallStream(e, en, r, tmpl.mk(), cfg, withRules, "")
		feat := planFeatures(plan, r)
		nontrivial := r.ZeroReads > 0 || r.EOFData > 0 || r.ShortReads > 0
		e.Seen(nontrivial, sig, kind, plan.Boundaries, plan.ZeroBefore, plan.MaxPerCall, plan.EOFWithData)
		e.Count("reader_calls", r.Calls)
		e.Count("delivery:zero_reads", r.ZeroReads)
		e.Count("delivery:data_with_eof", r.EOFData)
		e.Count("delivery:short_reads", r.ShortReads)
		e.Count("delivery:scribbles", r.Scribbles)
		loc := fmt.Sprintf("entry=%s format=%s features=%s", en, f, Features(feat))
		if got.Panic != nil {
			sc.Plan = plan
			e.Fail("panic-escaped", fmt.Sprintf("entry=%s site=%s", en, got.Panic.Frame), got.Panic.Value)
			return false
		}
		if (got.Err == nil) != (ref.Err == nil) {
			sc.Plan = plan
			e.Fail("result-mismatch", loc, fmt.Sprintf("stream err=%v, memory err=%v", got.Err, ref.Err))
			return false
		}
		if en.IsUnmarshal() {
			if ok, why := eq.Equal(got.Value, ref.Value); !ok {
				sc.Plan = plan
				e.Fail("result-mismatch", loc, "value differs: "+why)
				return false
			}
		} else {
			a, b := rec.Join(got.Events), rec.Join(ref.Events)
			if a != b {
				sc.Plan = plan
				e.Fail("result-mismatch", loc, fmt.Sprintf("events differ: stream=[%s] memory=[%s]", clip(a), clip(b)))
				return false
			}
		}
		return true
	}

	// drawn plans
	nplans := 4
	if e.Thorough() {
		nplans = 10
	}
	for i := 0; i < nplans; i++ {
		if !check(simio.DrawReaderPlan(t, len(bytes)), "drawn") {
			return e.Finish(sig, nil, sc)
		}
	}
	// exhaustive single split points (and single zero-read positions) for small documents
	limit := 96
	if e.Thorough() {
		limit = 256
	}
	if len(bytes) <= limit {
		for k := 1; k < len(bytes); k++ {
			if !check(simio.ReaderPlan{Cut: -1, Boundaries: []int{k}}, "split") {
				return e.Finish(sig, nil, sc)
			}
		}
		for k := 0; k <= len(bytes); k++ {
			if !check(simio.ReaderPlan{Cut: -1, ZeroBefore: map[int]int{k: 1}}, "zero") {
				return e.Finish(sig, nil, sc)
			}
		}
		if !check(simio.ReaderPlan{Cut: -1, EOFWithData: true}, "eof") {
			return e.Finish(sig, nil, sc)
		}
		if !check(simio.ReaderPlan{Cut: -1, MaxPerCall: 1, EOFWithData: true}, "eof1") {
			return e.Finish(sig, nil, sc)
		}
		e.Count("docs_exhaustive_single_split", 1)
	}
	var sample interface{}
	if e.WantSample {
		sample = sc
	}
	return e.Finish(sig, sample, sc)
}

func clip(s string) string {
	if len(s) > 600 {
		return s[:600] + "..."
	}
	return s
}
