package scen

import (
	"fmt"
	"math/big"

	"github.com/cockroachdb/apd/v2"
	compact_float "github.com/kstenerud/go-compact-float"

	"verifsim/tape"
)

// Adversarial CTE literals: a number of a dozen characters whose EXPONENT is
// enormous. The value is a legitimate big float / decimal float; what is asked
// of the library is only that reading it into a numeric template (which mostly
// cannot hold it, so the call fails) costs what a 20-byte document may cost.
// Used by C07 (returns at all) and C08 (memory clause).

var literalExponents = []int{300, 30000, 300000, 1000000, 3000000, 30000000, 999999999}

var literalForms = []string{"0x1p", "0x1.8p", "-0x1.23456789abcdef0123p", "1e", "1.5e", "-1.2345678901234567890123e"}

type numTemplate struct {
	name   string
	scalar func() interface{}
	list   func() interface{}
}

var numTemplates = []numTemplate{
	{"int", func() interface{} { return int(0) }, func() interface{} { return []int{} }},
	{"uint8", func() interface{} { return uint8(0) }, func() interface{} { return []uint8{} }},
	{"float64", func() interface{} { return float64(0) }, func() interface{} { return []float64{} }},
	{"float32", func() interface{} { return float32(0) }, func() interface{} { return []float32{} }},
	{"*big.Int", func() interface{} { return big.NewInt(0) }, func() interface{} { return []*big.Int{} }},
	{"*big.Float", func() interface{} { return big.NewFloat(0) }, func() interface{} { return []*big.Float{} }},
	{"*apd.Decimal", func() interface{} { return &apd.Decimal{} }, func() interface{} { return []*apd.Decimal{} }},
	{"compact_float.DFloat", func() interface{} { return compact_float.DFloat{} }, func() interface{} { return []compact_float.DFloat{} }},
	{"interface{}", func() interface{} { return nil }, func() interface{} { return []interface{}{} }},
}

// adversarialLiteral returns the document, a description, and a template
// constructor whose type matches the document's shape.
func adversarialLiteral(t *tape.Tape) (doc []byte, desc string, tmplName string, mk func() interface{}) {
	exp := literalExponents[t.Intn("lit-exp", len(literalExponents))]
	sign := []string{"", "-"}[t.Intn("lit-expsign", 2)]
	form := literalForms[t.Intn("lit-form", len(literalForms))]
	lit := fmt.Sprintf("%s%s%d", form, sign, exp)
	nt := numTemplates[t.Intn("lit-template", len(numTemplates))]
	if t.Bool("lit-in-list") {
		return []byte("c0\n[" + lit + "]"), "huge-exponent literal " + lit + " in a list", "[]" + nt.name, nt.list
	}
	return []byte("c0\n" + lit), "huge-exponent literal " + lit, nt.name, nt.scalar
}
