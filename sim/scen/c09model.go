package scen

import (
	"fmt"
	"reflect"
	"strings"

	"github.com/kstenerud/go-concise-encoding/ce/events"

	"verifsim/eq"
	"verifsim/gen"
	"verifsim/rec"
)

// Reference model for C09's completeness clause ("elements and entries that
// were completely decoded are present and unchanged").
//
// The model is the nesting structure of the generated event list together
// with the encoder offsets recorded while the document was written: for a cut
// at byte k it says how many leading elements of every list (entries of every
// map) on the path to the cut were delivered completely. What those elements
// look like as Go values is never modelled: they are compared with the value
// the same real code builds from the complete document.

type mnode struct {
	kind     byte // 'l' list, 'm' map, 'o' opaque (scalar, array, node, edge, record, reference, marked object)
	end      int  // encoder offset after the node's last event
	children []*mnode // list: elements; map: key0,value0,key1,value1,...
	isKey    bool     // a string leaf: its text (used to find the struct field of a typed template)
	key      string
}

type mparser struct {
	evs []rec.Ev
	off []int
	i   int
}

func (p *mparser) skipNoise() {
	for p.i < len(p.evs) && (p.evs[p.i].K == rec.KPadding || p.evs[p.i].K == rec.KComment) {
		p.i++
	}
}

// skipArrayTail consumes chunk/data events up to and including the final chunk's data.
func (p *mparser) skipArrayTail() {
	for p.i < len(p.evs) {
		switch p.evs[p.i].K {
		case rec.KArrayChunk:
			final := !p.evs[p.i].B
			p.i++
			for p.i < len(p.evs) && p.evs[p.i].K == rec.KArrayData {
				p.i++
			}
			if final {
				return
			}
		default:
			return
		}
	}
}

func (p *mparser) value() *mnode {
	p.skipNoise()
	if p.i >= len(p.evs) {
		return nil
	}
	e := p.evs[p.i]
	switch e.K {
	case rec.KMarker:
		p.i++
		inner := p.value()
		if inner == nil {
			return nil
		}
		return &mnode{kind: 'o', end: inner.end}
	case rec.KList:
		p.i++
		n := &mnode{kind: 'l'}
		for {
			p.skipNoise()
			if p.i >= len(p.evs) {
				return nil
			}
			if p.evs[p.i].K == rec.KEndContainer {
				n.end = p.off[p.i]
				p.i++
				return n
			}
			c := p.value()
			if c == nil {
				return nil
			}
			n.children = append(n.children, c)
		}
	case rec.KMap:
		p.i++
		n := &mnode{kind: 'm'}
		for {
			p.skipNoise()
			if p.i >= len(p.evs) {
				return nil
			}
			if p.evs[p.i].K == rec.KEndContainer {
				n.end = p.off[p.i]
				p.i++
				return n
			}
			k := p.value()
			v := p.value()
			if k == nil || v == nil {
				return nil
			}
			n.children = append(n.children, k, v)
		}
	case rec.KNode, rec.KEdge, rec.KRecord:
		p.i++
		for {
			p.skipNoise()
			if p.i >= len(p.evs) {
				return nil
			}
			if p.evs[p.i].K == rec.KEndContainer {
				n := &mnode{kind: 'o', end: p.off[p.i]}
				p.i++
				return n
			}
			if p.value() == nil {
				return nil
			}
		}
	case rec.KArrayBegin, rec.KMediaBegin, rec.KCustomBegin:
		start := p.i
		p.i++
		p.skipArrayTail()
		n := &mnode{kind: 'o', end: p.off[p.i-1]}
		if e.K == rec.KArrayBegin && e.AT == events.ArrayTypeString {
			n.isKey = true
			for _, d := range p.evs[start:p.i] {
				if d.K == rec.KArrayData {
					n.key += string(d.S)
				}
			}
		}
		return n
	case rec.KEndContainer, rec.KEndDocument, rec.KRecordType:
		return nil
	}
	p.i++
	n := &mnode{kind: 'o', end: p.off[p.i-1]}
	if (e.K == rec.KArray || e.K == rec.KStringlikeArray) && e.AT == events.ArrayTypeString {
		n.isKey, n.key = true, string(e.S)
	}
	return n
}

// buildModel returns the model of the document's top-level value, or nil if
// the event list has a shape the model does not cover.
func buildModel(d *gen.Doc) *mnode {
	p := &mparser{evs: d.Events, off: d.Off}
	if len(p.evs) < 3 || p.evs[0].K != rec.KBeginDocument || p.evs[1].K != rec.KVersion {
		return nil
	}
	// A forward reference (to a marker that comes later) has no value until its
	// marker arrives: whether the entry holding it counts as "completely
	// decoded" at an earlier cut is not something the property decides. Such
	// documents get the error and prefix checks only.
	marked := map[string]bool{}
	for _, e := range p.evs {
		switch e.K {
		case rec.KMarker:
			marked[string(e.S)] = true
		case rec.KReferenceLocal:
			if !marked[string(e.S)] {
				return nil
			}
		}
	}
	p.i = 2
	for {
		p.skipNoise()
		if p.i < len(p.evs) && p.evs[p.i].K == rec.KRecordType {
			p.i++
			for p.i < len(p.evs) && p.evs[p.i].K != rec.KEndContainer {
				if p.value() == nil {
					return nil
				}
				p.skipNoise()
			}
			p.i++
			continue
		}
		break
	}
	return p.value()
}

// complete reports whether all bytes of n were delivered before the cut.
func (n *mnode) complete(k int, cte bool) bool {
	if cte && n.kind == 'o' {
		// a text token is only known to be complete once something follows it
		return n.end < k
	}
	return n.end <= k
}

// checkComplete verifies the completeness clause for cut k. partial and full
// are the values the real code produced for the cut and the whole document.
func checkComplete(n *mnode, partial, full reflect.Value, k int, cte bool, path string) (bool, string) {
	partial, full = deref(partial), deref(full)
	switch n.kind {
	case 'l':
		if !full.IsValid() || (full.Kind() != reflect.Slice && full.Kind() != reflect.Array) {
			return true, "" // representation not covered by the model
		}
		done := 0
		for done < len(n.children) && n.children[done].complete(k, cte) {
			done++
		}
		if done == 0 && (done >= len(n.children) || !hasCompleteDescendant(n.children[done], k, cte)) {
			return true, ""
		}
		if !partial.IsValid() || (partial.Kind() != reflect.Slice && partial.Kind() != reflect.Array) {
			return false, fmt.Sprintf("%s: %d element(s) were completely delivered but the partial value holds no list here", path, done)
		}
		if partial.Len() < done {
			return false, fmt.Sprintf("%s: %d element(s) were completely delivered but the partial list has %d", path, done, partial.Len())
		}
		for i := 0; i < done && i < full.Len(); i++ {
			if ok, why := eq.Equal(partial.Index(i).Interface(), full.Index(i).Interface()); !ok {
				return false, fmt.Sprintf("%s[%d]: completely delivered element differs from the full value: %s", path, i, why)
			}
		}
		if done < len(n.children) && hasCompleteDescendant(n.children[done], k, cte) && done < full.Len() {
			if partial.Len() <= done {
				return false, fmt.Sprintf("%s[%d]: an open container with completely delivered contents is missing", path, done)
			}
			return checkComplete(n.children[done], partial.Index(done), full.Index(done), k, cte, fmt.Sprintf("%s[%d]", path, done))
		}
	case 'm':
		if full.IsValid() && full.Kind() == reflect.Struct {
			return checkCompleteStruct(n, partial, full, k, cte, path)
		}
		if !full.IsValid() || full.Kind() != reflect.Map {
			return true, ""
		}
		done := 0
		for 2*done+1 < len(n.children) && n.children[2*done].complete(k, cte) && n.children[2*done+1].complete(k, cte) {
			done++
		}
		openVal := (*mnode)(nil)
		if 2*done+1 < len(n.children) && n.children[2*done].complete(k, cte) && hasCompleteDescendant(n.children[2*done+1], k, cte) {
			openVal = n.children[2*done+1]
		}
		if done == 0 && openVal == nil {
			return true, ""
		}
		if !partial.IsValid() || partial.Kind() != reflect.Map {
			return false, fmt.Sprintf("%s: %d entr(ies) were completely delivered but the partial value holds no map here", path, done)
		}
		need := done
		if openVal != nil {
			need++
		}
		if partial.Len() < need {
			return false, fmt.Sprintf("%s: %d entr(ies) were delivered (%d completely) but the partial map has %d", path, need, done, partial.Len())
		}
		if openVal != nil {
			// the open entry is the one whose value is not (yet) equal to the full value's
			it := partial.MapRange()
			for it.Next() {
				fv := full.MapIndex(it.Key())
				if !fv.IsValid() {
					continue // the prefix check reports foreign keys
				}
				if ok, _ := eq.Equal(it.Value().Interface(), fv.Interface()); !ok {
					return checkComplete(openVal, it.Value(), fv, k, cte, fmt.Sprintf("%s{%v}", path, it.Key()))
				}
			}
		}
	}
	return true, ""
}

// checkCompleteStruct: the document's map was unmarshaled into a Go struct
// (typed template). Every entry delivered completely before the cut must be
// in its field, unchanged; the entry that was open at the cut is followed
// into its field. Keys are matched to fields the way the library documents
// (case-insensitively, ignoring underscores); an entry whose key matches no
// field gives no verdict.
func checkCompleteStruct(n *mnode, partial, full reflect.Value, k int, cte bool, path string) (bool, string) {
	field := func(v reflect.Value, key string) reflect.Value {
		if !v.IsValid() || v.Kind() != reflect.Struct {
			return reflect.Value{}
		}
		want := strings.ToLower(strings.ReplaceAll(key, "_", ""))
		for i := 0; i < v.NumField(); i++ {
			if strings.ToLower(strings.ReplaceAll(v.Type().Field(i).Name, "_", "")) == want {
				return v.Field(i)
			}
		}
		return reflect.Value{}
	}
	for i := 0; i+1 < len(n.children); i += 2 {
		key, val := n.children[i], n.children[i+1]
		if !key.complete(k, cte) || !key.isKey {
			return true, ""
		}
		ff := field(full, key.key)
		if !ff.IsValid() {
			continue
		}
		p := path + "." + key.key
		if val.complete(k, cte) {
			pf := field(partial, key.key)
			if !pf.IsValid() {
				return false, fmt.Sprintf("%s: a completely delivered field exists in the full value but the partial value holds no struct here", p)
			}
			if !pf.CanInterface() || !ff.CanInterface() {
				continue
			}
			if ok, why := eq.Equal(pf.Interface(), ff.Interface()); !ok {
				return false, fmt.Sprintf("%s: completely delivered field differs from the full value (%s)", p, why)
			}
			continue
		}
		// first incomplete entry: follow it if it has completely delivered contents
		if hasCompleteDescendant(val, k, cte) {
			pf := field(partial, key.key)
			if !pf.IsValid() {
				return false, fmt.Sprintf("%s: an open container with completely delivered contents is missing", p)
			}
			return checkComplete(val, pf, ff, k, cte, p)
		}
		return true, ""
	}
	return true, ""
}

func hasCompleteDescendant(n *mnode, k int, cte bool) bool {
	if n.kind == 'o' {
		return false
	}
	step := 1
	if n.kind == 'm' {
		step = 2
	}
	for i := 0; i+step-1 < len(n.children); i += step {
		if n.kind == 'm' {
			if n.children[i].complete(k, cte) && n.children[i+1].complete(k, cte) {
				return true
			}
			if n.children[i].complete(k, cte) && hasCompleteDescendant(n.children[i+1], k, cte) {
				return true
			}
		} else {
			if n.children[i].complete(k, cte) || hasCompleteDescendant(n.children[i], k, cte) {
				return true
			}
		}
	}
	return false
}

func deref(v reflect.Value) reflect.Value {
	for v.IsValid() && (v.Kind() == reflect.Interface || v.Kind() == reflect.Ptr) {
		if v.IsNil() {
			return reflect.Value{}
		}
		v = v.Elem()
	}
	return v
}

// modelAgrees reports whether the value built from the COMPLETE document has
// the container structure of the event list (same list lengths and map sizes
// along every list/map path). When it does not, the library's own full value
// is not a usable reference for this document (a pure decode/build matter
// that belongs to other properties, e.g. marked arrays the builder drops).
func modelAgrees(n *mnode, full reflect.Value) bool {
	full = deref(full)
	switch n.kind {
	case 'l':
		if !full.IsValid() || full.Kind() != reflect.Slice || full.Len() != len(n.children) {
			return false
		}
		for i, c := range n.children {
			if c.kind != 'o' && !modelAgrees(c, full.Index(i)) {
				return false
			}
		}
	case 'm':
		if !full.IsValid() || full.Kind() != reflect.Map || full.Len() != len(n.children)/2 {
			return false
		}
		// container-valued entries: each must be matched by a distinct entry of
		// the full map whose value has the same structure (maps are unordered)
		used := map[int]bool{}
		var vals []reflect.Value
		it := full.MapRange()
		for it.Next() {
			vals = append(vals, it.Value())
		}
		for i := 1; i < len(n.children); i += 2 {
			c := n.children[i]
			if c.kind == 'o' {
				continue
			}
			found := false
			for j, v := range vals {
				if !used[j] && modelAgrees(c, v) {
					used[j], found = true, true
					break
				}
			}
			if !found {
				return false
			}
		}
	}
	return true
}
