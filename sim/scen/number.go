package scen

import (
	"bytes"
	"fmt"
	"math"
	"math/big"

	"github.com/cockroachdb/apd/v2"
	compact_float "github.com/kstenerud/go-compact-float"
	"github.com/kstenerud/go-concise-encoding/cbe"

	"verifsim/tape"
)

// Adversarial CBE numbers: the binary counterpart of the huge-exponent CTE
// literals. A decimal float (type 0x76) of 8-20 bytes whose exponent is
// anywhere up to +-2^31 and whose coefficient is small, at the int64 limits,
// or beyond them (big decimal), written by the REAL encoder from one event and
// read into a numeric template. Nothing here says what the result must be -
// only (C07) that the call returns and (C08) what it may cost.

var numberExponents = []int32{0, 300, 30000, 3000000, 2147483000, 2147483646}

func adversarialNumberCBE(t *tape.Tape) (doc []byte, desc string, tmplName string, mk func() interface{}) {
	exp := numberExponents[t.Intn("num-exp", len(numberExponents))]
	if t.Bool("num-expsign") {
		exp = -exp
	}
	kind := t.Intn("num-kind", 6)
	inList := t.Bool("num-in-list")
	nt := numTemplates[t.Intn("num-template", len(numTemplates))]
	tmplName, mk = nt.name, nt.scalar
	if inList {
		tmplName, mk = "[]"+nt.name, nt.list
	}
	buf := &bytes.Buffer{}
	func() {
		defer func() {
			if r := recover(); r != nil {
				desc = fmt.Sprintf("(encoder refused: %v)", r)
				buf.Reset()
				buf.Write([]byte{0x81, 0x00, 0x01})
			}
		}()
		enc := cbe.NewEncoder(configurationDefault)
		enc.PrepareToEncode(buf)
		enc.OnBeginDocument()
		enc.OnVersion(0)
		if inList {
			enc.OnList()
		}
		switch kind {
		case 0:
			desc = fmt.Sprintf("decimal float 15e%d", exp)
			enc.OnDecimalFloat(compact_float.DFloat{Exponent: exp, Coefficient: 15})
		case 1:
			desc = fmt.Sprintf("decimal float MaxInt64 e%d", exp)
			enc.OnDecimalFloat(compact_float.DFloat{Exponent: exp, Coefficient: math.MaxInt64})
		case 2:
			desc = fmt.Sprintf("decimal float -1234567890123456789e%d", exp)
			enc.OnDecimalFloat(compact_float.DFloat{Exponent: exp, Coefficient: -1234567890123456789})
		case 3:
			desc = fmt.Sprintf("big decimal float 2^63 e%d", exp)
			enc.OnBigDecimalFloat(apd.NewWithBigInt(new(big.Int).Lsh(big.NewInt(1), 63), exp))
		case 4:
			desc = fmt.Sprintf("big decimal float -(2^200) e%d", exp)
			c := new(big.Int).Lsh(big.NewInt(1), 200)
			enc.OnBigDecimalFloat(apd.NewWithBigInt(c.Neg(c), exp))
		case 5:
			desc = fmt.Sprintf("big decimal float (2^64-1) e%d", exp)
			enc.OnBigDecimalFloat(apd.NewWithBigInt(new(big.Int).SetUint64(math.MaxUint64), exp))
		}
		if inList {
			enc.OnEndContainer()
		}
		enc.OnEndDocument()
	}()
	return append([]byte{}, buf.Bytes()...), "huge-exponent number: " + desc, tmplName, mk
}
