package scen

import (
	"fmt"
	"unsafe"

	"github.com/kstenerud/go-concise-encoding/ce"
	"github.com/kstenerud/go-concise-encoding/ce/events"
	"github.com/kstenerud/go-concise-encoding/types"

	"verifsim/gen"
	"verifsim/rec"
	"verifsim/simio"
)

// C07: no input makes a public entry point panic, hang or crash.
//
// Fault space: storage faults on generated documents (bit/byte flips, zeroed
// and duplicated ranges, truncation, misdirected writes, overwritten length
// fields, garbage), delivered through SimReader plans, for every decode /
// unmarshal entry point and template; marshal entry points on generated
// values including unsupported kinds, optionally with writer faults.
// Oracle (absolute): the call returns within the watchdog, no panic escapes,
// the worker process is alive afterwards (address space capped).

func init() { Registry["C07"] = runC07 }

var c07Templates = []struct {
	name string
	mk   func() interface{}
}{
	{"nil", func() interface{} { return nil }},
	{"[]interface{}", func() interface{} { return []interface{}{} }},
	{"map[interface{}]interface{}", func() interface{} { return map[interface{}]interface{}{} }},
	{"[]int", func() interface{} { return []int{} }},
	{"[3]string", func() interface{} { return [3]string{} }},
	{"*int", func() interface{} { return (*int)(nil) }},
	{"string", func() interface{} { return "" }},
	{"float64", func() interface{} { return float64(0) }},
	{"struct", func() interface{} { return struct {
		K1 interface{}
		K2 int
		K3 []string
	}{} }},
	{"types.Node", func() interface{} { return types.Node{} }},
	{"types.Edge", func() interface{} { return types.Edge{} }},
	{"types.Media", func() interface{} { return types.Media{} }},
	{"map[string][]byte", func() interface{} { return map[string][]byte{} }},
	{"*Rec1", func() interface{} { return &gen.Rec1{} }},
	{"Chain (embeds *Chain)", func() interface{} { return gen.Chain{} }},
	{"[]*Chain", func() interface{} { return []*gen.Chain{} }},
	{"SelfSlice (type T []T)", func() interface{} { return gen.SelfSlice{} }},
	{"*SelfPtrSlice (type T []*T)", func() interface{} { return &gen.SelfPtrSlice{} }},
	{"chan int", func() interface{} { return (chan int)(nil) }},
	{"func()", func() interface{} { return (func())(nil) }},
	{"complex128", func() interface{} { return complex128(0) }},
	{"unsafe.Pointer", func() interface{} { return unsafe.Pointer(nil) }},
	{"BadChan", func() interface{} { return gen.BadChan{} }},
	{"[]BadNested", func() interface{} { return []gen.BadNested{} }},
}

// templates for struct-shaped documents (keys k1, k2, ...)
var c07StructTemplates = []struct {
	name string
	mk   func() interface{}
}{
	{"struct{K1 interface{};K2 int;K3 []string}", func() interface{} {
		return struct {
			K1 interface{}
			K2 int
			K3 []string
		}{}
	}},
	{"struct{K1 int;K2 []interface{};K3 float64;K4 string}", func() interface{} {
		return struct {
			K1 int
			K2 []interface{}
			K3 float64
			K4 string
		}{}
	}},
	{"struct{K1 []interface{};K2 int;K3 map[interface{}]interface{}}", func() interface{} {
		return struct {
			K1 []interface{}
			K2 int
			K3 map[interface{}]interface{}
		}{}
	}},
	{"*struct{K1 *int;K2 uint8;K3 [2]interface{};K4 *gen.Rec1}", func() interface{} {
		return &struct {
			K1 *int
			K2 uint8
			K3 [2]interface{}
			K4 *gen.Rec1
		}{}
	}},
	{"map[string]int", func() interface{} { return map[string]int{} }},
	{"map[string][]interface{}", func() interface{} { return map[string][]interface{}{} }},
}

type c07Scenario struct {
	Format   string               `json:"format"`
	Cfg      CfgDesc              `json:"config"`
	DocHex   string               `json:"doc_hex,omitempty"`
	Faults   []simio.StorageFault `json:"storage_faults,omitempty"`
	Template string               `json:"template,omitempty"`
	Failing  string               `json:"failing_call,omitempty"`
	Value    string               `json:"marshal_value_type,omitempty"`
}

func deepDoc(f gen.Format, depth int, kind int) []byte {
	var b []byte
	if f == gen.CBE {
		b = []byte{0x81, 0x00}
		open := byte(0x9a) // list
		if kind == 1 {
			open = 0x97 // node
		}
		for i := 0; i < depth; i++ {
			b = append(b, open)
			if kind == 1 {
				b = append(b, 0x01)
			}
		}
		if kind == 2 {
			for i := 0; i < depth; i++ {
				b = append(b, 0x9b)
			}
		}
		return b
	}
	b = []byte("c0\n")
	for i := 0; i < depth; i++ {
		switch kind {
		case 1:
			b = append(b, "(1 "...)
		default:
			b = append(b, '[')
		}
	}
	if kind == 2 {
		for i := 0; i < depth; i++ {
			b = append(b, ']')
		}
	}
	return b
}

func runC07(e *Env) Outcome {
	t := e.T
	f := gen.Format(t.Intn("format", 2))
	cfgd := DrawCfg(t, true)
	cfg := cfgd.Build()
	sc := &c07Scenario{Format: f.String(), Cfg: cfgd}
	var bytes []byte
	structShaped := false
	mode := t.Intn("doc-mode", 11)
	var litName string
	var litTemplate func() interface{}
	switch {
	case mode == 10:
		// a value that contains itself (a marked list or map that refers to its
		// own marker), placed under k1 and REFERRED to from k2, k3, k4: read
		// into the struct templates, it lands on fields of every type, so every
		// conversion and every error message meets a cyclic value
		self := []rec.Ev{{K: rec.KMarker, S: []byte("m")}, {K: rec.KList}, {K: rec.KPositiveInt, U: 1}, {K: rec.KReferenceLocal, S: []byte("m")}, {K: rec.KEndContainer}}
		if t.Bool("self-map") {
			self = []rec.Ev{{K: rec.KMarker, S: []byte("m")}, {K: rec.KMap}, {K: rec.KArray, AT: events.ArrayTypeString, U: 1, S: []byte("a")}, {K: rec.KReferenceLocal, S: []byte("m")}, {K: rec.KEndContainer}}
		}
		evs := []rec.Ev{{K: rec.KBeginDocument}, {K: rec.KVersion}, {K: rec.KMap}}
		first := 1 + t.Intn("self-at", 4)
		for k := 1; k <= 4; k++ {
			evs = append(evs, rec.Ev{K: rec.KArray, AT: events.ArrayTypeString, U: 2, S: []byte(fmt.Sprintf("k%d", k))})
			switch {
			case k == first:
				evs = append(evs, self...)
			case k > first:
				evs = append(evs, rec.Ev{K: rec.KReferenceLocal, S: []byte("m")})
			default:
				evs = append(evs, rec.Ev{K: rec.KPositiveInt, U: uint64(k)})
			}
		}
		evs = append(evs, rec.Ev{K: rec.KEndContainer}, rec.Ev{K: rec.KEndDocument})
		if d, err := gen.Encode(evs, f, configurationDefault); err == nil && d != nil {
			bytes = d.Bytes
		}
		structShaped = true
		e.Count("docs_self_containing_value_into_struct_fields", 1)
	case mode == 9:
		// the marshaled document of a drawn value (pointers to maps and slices,
		// nested structs, arrays, recursive types ...), damaged in storage, read
		// back into a template of the value's OWN type: the typed builders are
		// entered deeply before the damage is met
		vo := gen.DrawValOpts(t)
		vo.NoCycles = !cfgd.Recursion
		val := gen.DrawValue(t, vo)
		p := e.Op("MarshalToDocument/typed-value", func() {
			if f == gen.CBE {
				bytes, _ = ce.MarshalToCBEDocument(val.V, cfg)
			} else {
				bytes, _ = ce.MarshalToCTEDocument(val.V, cfg)
			}
		})
		if p != nil {
			sc.Failing, sc.Value = "MarshalToDocument/typed-value", val.Desc
			e.Fail("panic-escaped", fmt.Sprintf("entry=%s site=%s", sc.Failing, p.Frame), p.Value)
			return e.Finish(Hash("c07", val.Desc, cfgd), nil, sc)
		}
		if nf := t.Intn("n-sf", 4); nf > 0 && len(bytes) > 0 {
			sc.Faults = simio.DrawStorageFaults(t, nf, len(bytes), nil)
			bytes = simio.Apply(bytes, sc.Faults)
			for _, sf := range sc.Faults {
				e.Count("fault:storage/"+sf.Kind, 1)
			}
		}
		litName, litTemplate = val.Desc, val.New
		e.Count("docs_marshaled_into_own_type", 1)
	case mode == 8 && f == gen.CTE:
		bytes, _, litName, litTemplate = adversarialLiteral(t)
		e.Count("docs_huge_exponent_literal", 1)
	case mode == 8:
		bytes, _, litName, litTemplate = adversarialNumberCBE(t)
		e.Count("docs_huge_exponent_number", 1)
	case mode == 7:
		depth := []int{5, 70, 1001, 3000}[t.Intn("deep-depth", 4)]
		if !e.Thorough() && depth > 1001 {
			depth = 1001
		}
		if t.Chance("very-deep", 1, 100) && f == gen.CTE {
			// hundreds of thousands of levels: under the worker's 64 MB stack
			// cap this shows whether the recursion of the parser / decoder is
			// bounded at all (the nesting limit of the rules must act before
			// anything recursive sees the document)
			depth = 300000
			e.Count("docs_very_deep_nesting", 1)
		}
		bytes = deepDoc(f, depth, t.Intn("deep-kind", 3))
		e.Count("docs_deep_nesting", 1)
	default:
		o := gen.DrawOpts(t)
		if mode >= 5 {
			// struct-shaped document: a top-level map with keys k1, k2, ... whose
			// values are anything (markers, references - also into the container
			// being marked - nested containers, arrays), read into struct templates
			// with fields K1, K2, ... of assorted types: every conversion and
			// error-reporting path of the typed builders
			structShaped = true
			o.TopContainer, o.TopMap, o.StringKeysOnly = true, true, true
			o.Markers, o.MarkerBias, o.RecursiveRefs = true, true, true
			if o.MaxItems < 3 {
				o.MaxItems = 3
			}
			e.Count("docs_struct_shaped", 1)
		}
		doc, rej := gen.DrawDoc(t, f, o, configurationDefault)
		e.Count("generator_rejects", rej)
		bytes = doc.Bytes
		nf := t.Intn("n-sf", 5)
		if structShaped && t.Bool("struct-unfaulted") {
			nf = 0 // the valid document itself is the stress: values that do not fit their fields
		}
		if nf > 0 {
			lens := lengthOffsets(doc)
			sc.Faults = simio.DrawStorageFaults(t, nf, len(bytes), lens)
			bytes = simio.Apply(bytes, sc.Faults)
			for _, sf := range sc.Faults {
				e.Count("fault:storage/"+sf.Kind, 1)
			}
		} else {
			e.Count("docs_unfaulted", 1)
		}
	}
	sc.DocHex = fmt.Sprintf("%x", clipBytes(bytes, 4096))
	sig := Hash("c07", bytes, cfgd)
	tmpl := c07Templates[0]
	if t.Chance("typed-template", 1, 2) {
		tmpl = c07Templates[t.Intn("template", len(c07Templates))]
	}
	if structShaped {
		tmpl = c07StructTemplates[t.Intn("struct-template", len(c07StructTemplates))]
	}
	if litTemplate != nil {
		tmpl.name, tmpl.mk = litName, litTemplate
	}
	sc.Template = tmpl.name
	withRules := t.Bool("decoder-rules")

	bad := func(call string, p *PanicInfo) bool {
		if p == nil {
			return false
		}
		sc.Failing = call
		e.Fail("panic-escaped", fmt.Sprintf("entry=%s site=%s", call, p.Frame), p.Value)
		return true
	}

	// every entry point that accepts bytes: the format's own and the universal ones;
	// also feed the document to the *other* format's entry points sometimes
	entries := EntriesFor(f)
	if t.Chance("cross-format", 1, 6) {
		entries = EntriesFor(1 - f)
		e.Count("docs_cross_format", 1)
	}
	for _, en := range entries {
		res := CallDocument(e, en, bytes, tmpl.mk(), cfg, withRules, "")
		e.Seen(len(sc.Faults) > 0 || mode == 7, sig, en, "doc", tmpl.name)
		if bad(en.String()+"/doc", res.Panic) {
			return e.Finish(sig, nil, sc)
		}
		plan := simio.DrawReaderPlan(t, len(bytes))
		r := simio.NewReader(bytes, plan)
		res = CallStream(e, en, r, tmpl.mk(), cfg, withRules, "")
		e.Seen(true, sig, en, "stream", tmpl.name, plan.Boundaries, plan.MaxPerCall, plan.EOFWithData)
		e.Count("reader_calls", r.Calls)
		if bad(en.String(), res.Panic) {
			return e.Finish(sig, nil, sc)
		}
	}

	// marshal direction
	vo := gen.DrawValOpts(t)
	vo.Unsupported = t.Chance("unsupported", 1, 2)
	val := gen.DrawValue(t, vo)
	sc.Value = val.Desc
	if !val.Supported {
		e.Count("values_with_unsupported_kind", 1)
	}
	v := val.V
	if t.Chance("nil-value", 1, 12) {
		v = nil
	}
	for mi := 0; mi < 4; mi++ {
		name := [...]string{"MarshalToCBEDocument", "MarshalToCTEDocument", "MarshalCBE", "MarshalCTE"}[mi]
		var p *PanicInfo
		switch mi {
		case 0:
			p = e.Op(name, func() { ce.MarshalToCBEDocument(v, cfg) })
		case 1:
			p = e.Op(name, func() { ce.MarshalToCTEDocument(v, cfg) })
		case 2:
			w := simio.MakeWriter(t.Bool("string-writer"), simio.WriterPlan{})
			p = e.Op(name, func() { ce.MarshalCBE(v, w, cfg) })
			e.Count("writer_calls", w.Base().Calls)
		case 3:
			w := simio.MakeWriter(t.Bool("string-writer"), simio.WriterPlan{})
			p = e.Op(name, func() { ce.MarshalCTE(v, w, cfg) })
			e.Count("writer_calls", w.Base().Calls)
		}
		e.Seen(true, "marshal", val.Desc, mi, fmt.Sprintf("%v", cfgd))
		if bad(name, p) {
			return e.Finish(sig, nil, sc)
		}
	}
	// the same values through ONE marshaler of each format: the value, a pointer
	// to it (a new top-level type whose element type was met a moment ago,
	// possibly unsuccessfully), and the value again
	for mi := 0; mi < 2; mi++ {
		name := [...]string{"CBEMarshaler.Marshal(reused)", "CTEMarshaler.Marshal(reused)"}[mi]
		var m ce.Marshaler
		if mi == 0 {
			m = ce.NewCBEMarshaler(cfg)
		} else {
			m = ce.NewCTEMarshaler(cfg)
		}
		for step, vv := range []interface{}{v, gen.PointerTo(v), v} {
			w := simio.NewWriter(simio.WriterPlan{})
			p := e.Op(name, func() { m.Marshal(vv, w) })
			e.Seen(true, "marshal-reused", val.Desc, mi, step, fmt.Sprintf("%v", cfgd))
			if bad(name, p) {
				return e.Finish(sig, nil, sc)
			}
		}
	}
	return e.Finish(sig, sc, sc)
}

func clipBytes(b []byte, n int) []byte {
	if len(b) > n {
		return b[:n]
	}
	return b
}
