// Package eq is the one shared notion of value equality and of "is a prefix
// of" used by every oracle.
package eq

import (
	"fmt"
	"math"
	"math/big"
	"reflect"
	"time"

	"github.com/cockroachdb/apd/v2"
)

type visit struct {
	prefix bool
	a, b uintptr
	t    reflect.Type
}

type cmp struct {
	seen map[visit]bool
	why  string
	// prefix mode: a may be a prefix of b
	prefix bool
}

// Equal reports deep equality: order-insensitive for maps, NaN equals NaN of
// the same quiet/signalling kind, big numbers by value, pointer graphs by
// shape (cycle safe).
func Equal(a, b interface{}) (bool, string) {
	c := &cmp{seen: map[visit]bool{}}
	ok := c.eq(reflect.ValueOf(a), reflect.ValueOf(b), "$")
	return ok, c.why
}

func (c *cmp) fail(path, format string, args ...interface{}) bool {
	if c.why == "" {
		c.why = path + ": " + fmt.Sprintf(format, args...)
	}
	return false
}

var (
	tBigInt   = reflect.TypeOf(big.Int{})
	tBigFloat = reflect.TypeOf(big.Float{})
	tAPD      = reflect.TypeOf(apd.Decimal{})
	tTime     = reflect.TypeOf(time.Time{})
)

func floatEq(x, y float64) bool {
	if math.IsNaN(x) || math.IsNaN(y) {
		if !(math.IsNaN(x) && math.IsNaN(y)) {
			return false
		}
		const quiet = uint64(1) << 51
		return math.Float64bits(x)&quiet == math.Float64bits(y)&quiet
	}
	return math.Float64bits(x) == math.Float64bits(y)
}

func special(a, b reflect.Value) (handled bool, equal bool) {
	if !a.CanInterface() || !b.CanInterface() {
		return false, false
	}
	switch a.Type() {
	case tBigInt:
		if !a.CanAddr() || !b.CanAddr() {
			x := a.Interface().(big.Int)
			y := b.Interface().(big.Int)
			return true, x.Cmp(&y) == 0
		}
		return true, a.Addr().Interface().(*big.Int).Cmp(b.Addr().Interface().(*big.Int)) == 0
	case tBigFloat:
		var x, y *big.Float
		if a.CanAddr() && b.CanAddr() {
			x, y = a.Addr().Interface().(*big.Float), b.Addr().Interface().(*big.Float)
		} else {
			xv := a.Interface().(big.Float)
			yv := b.Interface().(big.Float)
			x, y = &xv, &yv
		}
		return true, x.Cmp(y) == 0 && x.Signbit() == y.Signbit()
	case tAPD:
		var x, y *apd.Decimal
		if a.CanAddr() && b.CanAddr() {
			x, y = a.Addr().Interface().(*apd.Decimal), b.Addr().Interface().(*apd.Decimal)
		} else {
			xv := a.Interface().(apd.Decimal)
			yv := b.Interface().(apd.Decimal)
			x, y = &xv, &yv
		}
		if x.Form != y.Form {
			return true, false
		}
		if x.Form != apd.Finite {
			return true, x.Negative == y.Negative
		}
		return true, x.Cmp(y) == 0 && x.Negative == y.Negative
	case tTime:
		x := a.Interface().(time.Time)
		y := b.Interface().(time.Time)
		_, xo := x.Zone()
		_, yo := y.Zone()
		return true, x.Equal(y) && xo == yo
	}
	return false, false
}

func (c *cmp) eq(a, b reflect.Value, path string) bool {
	if !a.IsValid() || !b.IsValid() {
		if a.IsValid() == b.IsValid() {
			return true
		}
		if c.prefix && !a.IsValid() {
			return true
		}
		return c.fail(path, "one side is nil")
	}
	if a.Type() != b.Type() {
		return c.fail(path, "type %v vs %v", a.Type(), b.Type())
	}
	if c.prefix && a.IsZero() {
		// the zero value of a type is how Go spells "nothing decoded yet"
		return true
	}
	if h, e := special(a, b); h {
		if !e {
			return c.fail(path, "%v value differs", a.Type())
		}
		return true
	}
	switch a.Kind() {
	case reflect.Bool:
		if a.Bool() != b.Bool() {
			return c.fail(path, "%v vs %v", a.Bool(), b.Bool())
		}
	case reflect.Int, reflect.Int8, reflect.Int16, reflect.Int32, reflect.Int64:
		if a.Int() != b.Int() {
			return c.fail(path, "%v vs %v", a.Int(), b.Int())
		}
	case reflect.Uint, reflect.Uint8, reflect.Uint16, reflect.Uint32, reflect.Uint64, reflect.Uintptr:
		if a.Uint() != b.Uint() {
			return c.fail(path, "%v vs %v", a.Uint(), b.Uint())
		}
	case reflect.Float32, reflect.Float64:
		if !floatEq(a.Float(), b.Float()) {
			return c.fail(path, "%v vs %v", a.Float(), b.Float())
		}
	case reflect.Complex64, reflect.Complex128:
		if a.Complex() != b.Complex() {
			return c.fail(path, "complex differs")
		}
	case reflect.String:
		if a.String() != b.String() {
			return c.fail(path, "%q vs %q", a.String(), b.String())
		}
	case reflect.Interface:
		if a.IsNil() || b.IsNil() {
			if a.IsNil() == b.IsNil() {
				return true
			}
			if c.prefix && a.IsNil() {
				return true
			}
			return c.fail(path, "nil interface vs non-nil")
		}
		return c.eq(a.Elem(), b.Elem(), path)
	case reflect.Ptr:
		if a.IsNil() || b.IsNil() {
			if a.IsNil() == b.IsNil() {
				return true
			}
			if c.prefix && a.IsNil() {
				return true
			}
			return c.fail(path, "nil pointer vs non-nil")
		}
		v := visit{c.prefix, a.Pointer(), b.Pointer(), a.Type()}
		if c.seen[v] {
			return true
		}
		c.seen[v] = true
		return c.eq(a.Elem(), b.Elem(), path+"*")
	case reflect.Slice:
		if a.Len() > 0 && b.Len() > 0 {
			// containers can be cyclic (local references): compare each pair once
			v := visit{c.prefix, a.Pointer(), b.Pointer(), a.Type()}
			if c.seen[v] {
				return true
			}
			c.seen[v] = true
		}
		if c.prefix {
			return c.slicePrefix(a, b, path)
		}
		// nil and empty slices are distinguished only by length here: the
		// library documents no difference and the properties state none.
		if a.Len() != b.Len() {
			return c.fail(path, "len %d vs %d", a.Len(), b.Len())
		}
		for i := 0; i < a.Len(); i++ {
			if !c.eq(a.Index(i), b.Index(i), fmt.Sprintf("%s[%d]", path, i)) {
				return false
			}
		}
	case reflect.Array:
		if c.prefix {
			return c.arrayPrefix(a, b, path)
		}
		for i := 0; i < a.Len(); i++ {
			if !c.eq(a.Index(i), b.Index(i), fmt.Sprintf("%s[%d]", path, i)) {
				return false
			}
		}
	case reflect.Map:
		if !a.IsNil() && !b.IsNil() {
			v := visit{c.prefix, a.Pointer(), b.Pointer(), a.Type()}
			if c.seen[v] {
				return true
			}
			c.seen[v] = true
		}
		if c.prefix {
			return c.mapPrefix(a, b, path)
		}
		if a.Len() != b.Len() {
			return c.fail(path, "map len %d vs %d", a.Len(), b.Len())
		}
		return c.mapSub(a, b, path, false)
	case reflect.Struct:
		if c.prefix {
			return c.structPrefix(a, b, path)
		}
		for i := 0; i < a.NumField(); i++ {
			if !c.eq(a.Field(i), b.Field(i), path+"."+a.Type().Field(i).Name) {
				return false
			}
		}
	case reflect.Func, reflect.Chan, reflect.UnsafePointer:
		if a.Pointer() != b.Pointer() {
			return c.fail(path, "%v identity differs", a.Kind())
		}
	default:
		return c.fail(path, "unhandled kind %v", a.Kind())
	}
	return true
}

// findKey locates the entry of m whose key equals k under Equal semantics.
//
// Keys that Go itself cannot find again (NaN, NaN-holding composites) may
// occur several times in one map. For those the entry whose value also equals
// want is preferred, so that {NaN:1, NaN:2} equals {NaN:2, NaN:1}.
func (c *cmp) findKey(m reflect.Value, k reflect.Value, want reflect.Value) (reflect.Value, bool) {
	if v := m.MapIndex(k); v.IsValid() {
		return v, true
	}
	var first reflect.Value
	found := false
	it := m.MapRange()
	for it.Next() {
		sub := &cmp{seen: map[visit]bool{}}
		if !sub.eq(k, it.Key(), "") {
			continue
		}
		if !found {
			first, found = it.Value(), true
		}
		if want.IsValid() {
			vs := &cmp{seen: map[visit]bool{}}
			if vs.eq(want, it.Value(), "") {
				return it.Value(), true
			}
		}
	}
	return first, found
}

// mapSub: every entry of a is present in b. In prefix mode at most one value
// may be a strict prefix of b's.
func (c *cmp) mapSub(a, b reflect.Value, path string, allowOnePartial bool) bool {
	partialUsed := false
	it := a.MapRange()
	for it.Next() {
		bv, ok := c.findKey(b, it.Key(), it.Value())
		p := fmt.Sprintf("%s{%v}", path, keyText(it.Key()))
		if !ok {
			return c.fail(p, "key not present in the other map")
		}
		full := &cmp{seen: c.seen}
		if full.eq(it.Value(), bv, p) {
			continue
		}
		if allowOnePartial && !partialUsed {
			pc := &cmp{seen: c.seen, prefix: true}
			if pc.eq(it.Value(), bv, p) {
				// A map entry exists only once its value has arrived. An entry
				// whose scalar value is zero while the document's value is not
				// was made up (unlike a struct field, which is always there, or
				// an open container, which may still be empty).
				if scalarZero(it.Value()) && !scalarZero(bv) {
					return c.fail(p, "map entry holds a zero value that is not the value in the document")
				}
				partialUsed = true
				continue
			}
			return c.fail(p, "value neither equal nor a prefix (%s)", pc.why)
		}
		if allowOnePartial {
			return c.fail(p, "second incomplete entry (%s)", full.why)
		}
		return c.fail(p, "%s", full.why)
	}
	return true
}

func keyText(k reflect.Value) string {
	for k.Kind() == reflect.Interface && !k.IsNil() {
		k = k.Elem()
	}
	if k.CanInterface() {
		return fmt.Sprintf("%v", k.Interface())
	}
	return k.String()
}

// ---------------------------------------------------------------------------
// Prefix relation (C09): partial ⊑ full.

// Prefix reports whether partial is a prefix of full: nil ⊑ anything; a list
// is a prefix if all elements but its last equal the corresponding elements
// and its last is itself a prefix; a map if every entry is present with an
// equal value except at most one whose value is a prefix; a struct if every
// field is zero or equal except at most one that is a prefix; leaves are
// atomic (a shortened string is not a prefix: it was not in the document).
func Prefix(partial, full interface{}) (bool, string) {
	c := &cmp{seen: map[visit]bool{}, prefix: true}
	ok := c.eq(reflect.ValueOf(partial), reflect.ValueOf(full), "$")
	return ok, c.why
}

func (c *cmp) full() *cmp { return &cmp{seen: c.seen} }

func isByteLike(t reflect.Type) bool {
	switch t.Elem().Kind() {
	case reflect.Bool, reflect.Int, reflect.Int8, reflect.Int16, reflect.Int32, reflect.Int64,
		reflect.Uint, reflect.Uint8, reflect.Uint16, reflect.Uint32, reflect.Uint64, reflect.Float32, reflect.Float64:
		return true
	}
	return false
}

func (c *cmp) slicePrefix(a, b reflect.Value, path string) bool {
	if a.Len() == 0 {
		return true
	}
	if isByteLike(a.Type()) {
		// typed arrays: the elements that were decoded must be the leading
		// elements of the full array, unchanged
		if a.Len() > b.Len() {
			return c.fail(path, "partial typed array has %d elements, full has %d", a.Len(), b.Len())
		}
		f := c.full()
		if !f.eq(a, b.Slice(0, a.Len()), path) {
			return c.fail(path, "typed array elements differ: %s", f.why)
		}
		return true
	}
	if a.Len() > b.Len() {
		return c.fail(path, "partial has %d elements, full has %d", a.Len(), b.Len())
	}
	for i := 0; i < a.Len()-1; i++ {
		f := c.full()
		if !f.eq(a.Index(i), b.Index(i), fmt.Sprintf("%s[%d]", path, i)) {
			return c.fail(path, "complete element differs: %s", f.why)
		}
	}
	last := a.Len() - 1
	return c.eq(a.Index(last), b.Index(last), fmt.Sprintf("%s[%d]", path, last))
}

func (c *cmp) arrayPrefix(a, b reflect.Value, path string) bool {
	if isByteLike(a.Type()) {
		f := c.full()
		if f.eq(a, b, path) {
			return true
		}
		// decoded leading elements followed by zero values only
		k := a.Len()
		for k > 0 && a.Index(k-1).IsZero() {
			k--
		}
		for i := 0; i < k; i++ {
			g := c.full()
			if !g.eq(a.Index(i), b.Index(i), fmt.Sprintf("%s[%d]", path, i)) {
				return c.fail(path, "typed array element differs: %s", g.why)
			}
		}
		return true
	}
	// decoded prefix followed by zero values only
	n := a.Len()
	k := n
	for k > 0 && a.Index(k-1).IsZero() {
		k--
	}
	for i := 0; i < k-1; i++ {
		f := c.full()
		if !f.eq(a.Index(i), b.Index(i), fmt.Sprintf("%s[%d]", path, i)) {
			return c.fail(path, "complete element differs: %s", f.why)
		}
	}
	if k > 0 {
		return c.eq(a.Index(k-1), b.Index(k-1), fmt.Sprintf("%s[%d]", path, k-1))
	}
	return true
}

func (c *cmp) mapPrefix(a, b reflect.Value, path string) bool {
	if a.Len() > b.Len() {
		return c.fail(path, "partial map has %d entries, full has %d", a.Len(), b.Len())
	}
	return c.mapSub(a, b, path, true)
}

// emptyish: zero value, nil, or an allocated but empty container (possibly
// behind an interface): "nothing decoded here yet".
func emptyish(v reflect.Value) bool {
	for v.Kind() == reflect.Interface && !v.IsNil() {
		v = v.Elem()
	}
	if v.IsZero() {
		return true
	}
	return (v.Kind() == reflect.Slice || v.Kind() == reflect.Map) && v.Len() == 0
}

// scalarZero: a zero value of a scalar kind (possibly behind an interface).
func scalarZero(v reflect.Value) bool {
	for v.IsValid() && v.Kind() == reflect.Interface && !v.IsNil() {
		v = v.Elem()
	}
	if !v.IsValid() {
		return false
	}
	switch v.Kind() {
	case reflect.Bool, reflect.Int, reflect.Int8, reflect.Int16, reflect.Int32, reflect.Int64,
		reflect.Uint, reflect.Uint8, reflect.Uint16, reflect.Uint32, reflect.Uint64,
		reflect.Float32, reflect.Float64, reflect.String, reflect.Complex64, reflect.Complex128:
		return v.IsZero()
	}
	return false
}

// Emptyish reports whether v holds nothing: nil, a zero value, an empty
// container, or a pointer/interface to one of those.
func Emptyish(v interface{}) bool {
	rv := reflect.ValueOf(v)
	for rv.IsValid() && (rv.Kind() == reflect.Ptr || rv.Kind() == reflect.Interface) {
		if rv.IsNil() {
			return true
		}
		rv = rv.Elem()
	}
	return !rv.IsValid() || emptyish(rv)
}

func (c *cmp) structPrefix(a, b reflect.Value, path string) bool {
	partialUsed := false
	for i := 0; i < a.NumField(); i++ {
		fa, fb := a.Field(i), b.Field(i)
		p := path + "." + a.Type().Field(i).Name
		if emptyish(fa) {
			// nothing decoded into this field yet (an allocated but empty
			// container is as empty as a nil one)
			continue
		}
		f := c.full()
		if f.eq(fa, fb, p) {
			continue
		}
		if partialUsed {
			return c.fail(p, "second incomplete field (%s)", f.why)
		}
		pc := &cmp{seen: c.seen, prefix: true}
		if !pc.eq(fa, fb, p) {
			return c.fail(p, "field neither zero, equal nor a prefix (%s)", pc.why)
		}
		partialUsed = true
	}
	return true
}
