package rec

import (
	"math/big"

	"github.com/cockroachdb/apd/v2"
	compact_float "github.com/kstenerud/go-compact-float"
	compact_time "github.com/kstenerud/go-compact-time"
	"github.com/kstenerud/go-concise-encoding/ce/events"
)

// Counter is a receiver that only counts events and payload bytes: it
// allocates nothing, so that allocation measurements see the library alone.
type Counter struct {
	Events int
	Bytes  int
}

func (c *Counter) ev()                                   { c.Events++ }
func (c *Counter) OnBeginDocument()                      { c.ev() }
func (c *Counter) OnEndDocument()                        { c.ev() }
func (c *Counter) OnVersion(uint64)                      { c.ev() }
func (c *Counter) OnPadding()                            { c.ev() }
func (c *Counter) OnComment(_ bool, d []byte)            { c.ev(); c.Bytes += len(d) }
func (c *Counter) OnNull()                               { c.ev() }
func (c *Counter) OnBoolean(bool)                        { c.ev() }
func (c *Counter) OnTrue()                               { c.ev() }
func (c *Counter) OnFalse()                              { c.ev() }
func (c *Counter) OnPositiveInt(uint64)                  { c.ev() }
func (c *Counter) OnNegativeInt(uint64)                  { c.ev() }
func (c *Counter) OnInt(int64)                           { c.ev() }
func (c *Counter) OnBigInt(*big.Int)                     { c.ev() }
func (c *Counter) OnFloat(float64)                       { c.ev() }
func (c *Counter) OnBigFloat(*big.Float)                 { c.ev() }
func (c *Counter) OnDecimalFloat(compact_float.DFloat)   { c.ev() }
func (c *Counter) OnBigDecimalFloat(*apd.Decimal)        { c.ev() }
func (c *Counter) OnUID([]byte)                          { c.ev() }
func (c *Counter) OnNan(bool)                            { c.ev() }
func (c *Counter) OnTime(compact_time.Time)              { c.ev() }
func (c *Counter) OnList()                               { c.ev() }
func (c *Counter) OnMap()                                { c.ev() }
func (c *Counter) OnRecordType([]byte)                   { c.ev() }
func (c *Counter) OnRecord([]byte)                       { c.ev() }
func (c *Counter) OnEdge()                               { c.ev() }
func (c *Counter) OnNode()                               { c.ev() }
func (c *Counter) OnEndContainer()                       { c.ev() }
func (c *Counter) OnMarker([]byte)                       { c.ev() }
func (c *Counter) OnReferenceLocal([]byte)               { c.ev() }
func (c *Counter) OnArray(_ events.ArrayType, _ uint64, d []byte) { c.ev(); c.Bytes += len(d) }
func (c *Counter) OnStringlikeArray(_ events.ArrayType, d string) { c.ev(); c.Bytes += len(d) }
func (c *Counter) OnMedia(_ string, d []byte)            { c.ev(); c.Bytes += len(d) }
func (c *Counter) OnCustomBinary(_ uint64, d []byte)     { c.ev(); c.Bytes += len(d) }
func (c *Counter) OnCustomText(_ uint64, d string)       { c.ev(); c.Bytes += len(d) }
func (c *Counter) OnArrayBegin(events.ArrayType)         { c.ev() }
func (c *Counter) OnMediaBegin(string)                   { c.ev() }
func (c *Counter) OnCustomBegin(events.ArrayType, uint64) { c.ev() }
func (c *Counter) OnArrayChunk(uint64, bool)             { c.ev() }
func (c *Counter) OnArrayData(d []byte)                  { c.ev(); c.Bytes += len(d) }
func (c *Counter) OnError()                              { c.ev() }

var _ events.DataEventReceiver = (*Counter)(nil)
