// Package rec holds the event model shared by generators, the recording
// receiver and the oracles.
package rec

import (
	"fmt"
	"math"
	"math/big"
	"strings"

	"github.com/cockroachdb/apd/v2"
	compact_float "github.com/kstenerud/go-compact-float"
	compact_time "github.com/kstenerud/go-compact-time"
	"github.com/kstenerud/go-concise-encoding/ce/events"
)

type Kind uint8

const (
	KBeginDocument Kind = iota
	KEndDocument
	KVersion
	KPadding
	KComment
	KNull
	KBoolean
	KTrue
	KFalse
	KPositiveInt
	KNegativeInt
	KInt
	KBigInt
	KFloat
	KBigFloat
	KDecimalFloat
	KBigDecimalFloat
	KUID
	KNan
	KTime
	KList
	KMap
	KRecordType
	KRecord
	KEdge
	KNode
	KEndContainer
	KMarker
	KReferenceLocal
	KArray
	KStringlikeArray
	KMedia
	KCustomBinary
	KCustomText
	KArrayBegin
	KMediaBegin
	KCustomBegin
	KArrayChunk
	KArrayData
	KError
	NumKinds
)

var kindNames = [...]string{"bd", "ed", "v", "pad", "com", "null", "b", "true", "false", "pi", "ni", "i", "bi", "f", "bf", "df", "bdf",
	"uid", "nan", "t", "l", "m", "rt", "rec", "edge", "node", "e", "mark", "ref", "arr", "sarr", "media", "cb", "ct", "ab", "mb", "cbeg", "ac", "ad", "ERR"}

func (k Kind) String() string { return kindNames[k] }

// Ev is one data event with its arguments.
type Ev struct {
	K   Kind
	U   uint64 // version, ints, custom type, chunk length, element count
	I   int64
	F   float64
	B   bool // boolean value, moreChunksFollow, isMultiline, signaling
	S   []byte
	AT  events.ArrayType
	Big *big.Int
	BF  *big.Float
	DF  compact_float.DFloat
	BDF *apd.Decimal
	T   compact_time.Time
	MT  string
}

// Send delivers the event to a receiver. Byte slices are copied first so that a
// receiver that (wrongly) retains or modifies them cannot disturb the plan.
func (e Ev) Send(r events.DataEventReceiver) {
	cp := func(b []byte) []byte {
		if b == nil {
			return nil
		}
		return append(make([]byte, 0, len(b)), b...)
	}
	switch e.K {
	case KBeginDocument:
		r.OnBeginDocument()
	case KEndDocument:
		r.OnEndDocument()
	case KVersion:
		r.OnVersion(e.U)
	case KPadding:
		r.OnPadding()
	case KComment:
		r.OnComment(e.B, cp(e.S))
	case KNull:
		r.OnNull()
	case KBoolean:
		r.OnBoolean(e.B)
	case KTrue:
		r.OnTrue()
	case KFalse:
		r.OnFalse()
	case KPositiveInt:
		r.OnPositiveInt(e.U)
	case KNegativeInt:
		r.OnNegativeInt(e.U)
	case KInt:
		r.OnInt(e.I)
	case KBigInt:
		r.OnBigInt(new(big.Int).Set(e.Big))
	case KFloat:
		r.OnFloat(e.F)
	case KBigFloat:
		r.OnBigFloat(new(big.Float).Copy(e.BF))
	case KDecimalFloat:
		r.OnDecimalFloat(e.DF)
	case KBigDecimalFloat:
		r.OnBigDecimalFloat(new(apd.Decimal).Set(e.BDF))
	case KUID:
		r.OnUID(cp(e.S))
	case KNan:
		r.OnNan(e.B)
	case KTime:
		r.OnTime(e.T)
	case KList:
		r.OnList()
	case KMap:
		r.OnMap()
	case KRecordType:
		r.OnRecordType(cp(e.S))
	case KRecord:
		r.OnRecord(cp(e.S))
	case KEdge:
		r.OnEdge()
	case KNode:
		r.OnNode()
	case KEndContainer:
		r.OnEndContainer()
	case KMarker:
		r.OnMarker(cp(e.S))
	case KReferenceLocal:
		r.OnReferenceLocal(cp(e.S))
	case KArray:
		r.OnArray(e.AT, e.U, cp(e.S))
	case KStringlikeArray:
		r.OnStringlikeArray(e.AT, string(e.S))
	case KMedia:
		r.OnMedia(e.MT, cp(e.S))
	case KCustomBinary:
		r.OnCustomBinary(e.U, cp(e.S))
	case KCustomText:
		r.OnCustomText(e.U, string(e.S))
	case KArrayBegin:
		r.OnArrayBegin(e.AT)
	case KMediaBegin:
		r.OnMediaBegin(e.MT)
	case KCustomBegin:
		r.OnCustomBegin(e.AT, e.U)
	case KArrayChunk:
		r.OnArrayChunk(e.U, e.B)
	case KArrayData:
		r.OnArrayData(cp(e.S))
	case KError:
		r.OnError()
	default:
		panic(fmt.Sprintf("rec: unknown event kind %d", e.K))
	}
}

// String is the canonical rendering used for comparisons and samples.
func (e Ev) String() string {
	switch e.K {
	case KVersion, KPositiveInt, KNegativeInt:
		return fmt.Sprintf("%s=%d", e.K, e.U)
	case KInt:
		return fmt.Sprintf("i=%d", e.I)
	case KComment:
		return fmt.Sprintf("com=%v,%x", e.B, e.S)
	case KBoolean, KNan:
		return fmt.Sprintf("%s=%v", e.K, e.B)
	case KBigInt:
		return "bi=" + e.Big.String()
	case KFloat:
		return fmt.Sprintf("f=%016x", math.Float64bits(e.F))
	case KBigFloat:
		return "bf=" + e.BF.Text('g', -1)
	case KDecimalFloat:
		return "df=" + e.DF.String()
	case KBigDecimalFloat:
		return "bdf=" + e.BDF.String()
	case KUID, KRecordType, KRecord, KMarker, KReferenceLocal, KArrayData:
		return fmt.Sprintf("%s=%x", e.K, e.S)
	case KTime:
		return "t=" + e.T.String()
	case KArray:
		return fmt.Sprintf("arr=%d,%d,%x", e.AT, e.U, e.S)
	case KStringlikeArray:
		return fmt.Sprintf("sarr=%d,%x", e.AT, e.S)
	case KMedia:
		return fmt.Sprintf("media=%x,%x", e.MT, e.S)
	case KCustomBinary, KCustomText:
		return fmt.Sprintf("%s=%d,%x", e.K, e.U, e.S)
	case KArrayBegin:
		return fmt.Sprintf("ab=%d", e.AT)
	case KMediaBegin:
		return fmt.Sprintf("mb=%x", e.MT)
	case KCustomBegin:
		return fmt.Sprintf("cbeg=%d,%d", e.AT, e.U)
	case KArrayChunk:
		return fmt.Sprintf("ac=%d,%v", e.U, e.B)
	}
	return e.K.String()
}

func Strings(evs []Ev) []string {
	out := make([]string, len(evs))
	for i, e := range evs {
		out[i] = e.String()
	}
	return out
}

func Join(evs []Ev) string { return strings.Join(Strings(evs), " ") }

// Recorder is an events.DataEventReceiver that stores everything it is given.
// OnEvent, if set, is called after each recorded event (used for offsets).
type Recorder struct {
	Evs     []Ev
	OnEvent func(n int)
}

func (r *Recorder) add(e Ev) {
	r.Evs = append(r.Evs, e)
	if r.OnEvent != nil {
		r.OnEvent(len(r.Evs))
	}
}
func cp(b []byte) []byte { return append(make([]byte, 0, len(b)), b...) }

func (r *Recorder) OnBeginDocument()          { r.add(Ev{K: KBeginDocument}) }
func (r *Recorder) OnEndDocument()            { r.add(Ev{K: KEndDocument}) }
func (r *Recorder) OnVersion(v uint64)        { r.add(Ev{K: KVersion, U: v}) }
func (r *Recorder) OnPadding()                { r.add(Ev{K: KPadding}) }
func (r *Recorder) OnComment(m bool, c []byte) { r.add(Ev{K: KComment, B: m, S: cp(c)}) }
func (r *Recorder) OnNull()                   { r.add(Ev{K: KNull}) }
func (r *Recorder) OnBoolean(v bool)          { r.add(Ev{K: KBoolean, B: v}) }
func (r *Recorder) OnTrue()                   { r.add(Ev{K: KTrue}) }
func (r *Recorder) OnFalse()                  { r.add(Ev{K: KFalse}) }
func (r *Recorder) OnPositiveInt(v uint64)    { r.add(Ev{K: KPositiveInt, U: v}) }
func (r *Recorder) OnNegativeInt(v uint64)    { r.add(Ev{K: KNegativeInt, U: v}) }
func (r *Recorder) OnInt(v int64)             { r.add(Ev{K: KInt, I: v}) }
func (r *Recorder) OnBigInt(v *big.Int) {
	if v == nil {
		r.add(Ev{K: KNull})
		return
	}
	r.add(Ev{K: KBigInt, Big: new(big.Int).Set(v)})
}
func (r *Recorder) OnFloat(v float64) { r.add(Ev{K: KFloat, F: v}) }
func (r *Recorder) OnBigFloat(v *big.Float) {
	if v == nil {
		r.add(Ev{K: KNull})
		return
	}
	r.add(Ev{K: KBigFloat, BF: new(big.Float).Copy(v)})
}
func (r *Recorder) OnDecimalFloat(v compact_float.DFloat) { r.add(Ev{K: KDecimalFloat, DF: v}) }
func (r *Recorder) OnBigDecimalFloat(v *apd.Decimal) {
	if v == nil {
		r.add(Ev{K: KNull})
		return
	}
	r.add(Ev{K: KBigDecimalFloat, BDF: new(apd.Decimal).Set(v)})
}
func (r *Recorder) OnUID(v []byte)               { r.add(Ev{K: KUID, S: cp(v)}) }
func (r *Recorder) OnNan(s bool)                 { r.add(Ev{K: KNan, B: s}) }
func (r *Recorder) OnTime(v compact_time.Time)   { r.add(Ev{K: KTime, T: v}) }
func (r *Recorder) OnList()                      { r.add(Ev{K: KList}) }
func (r *Recorder) OnMap()                       { r.add(Ev{K: KMap}) }
func (r *Recorder) OnRecordType(id []byte)       { r.add(Ev{K: KRecordType, S: cp(id)}) }
func (r *Recorder) OnRecord(id []byte)           { r.add(Ev{K: KRecord, S: cp(id)}) }
func (r *Recorder) OnEdge()                      { r.add(Ev{K: KEdge}) }
func (r *Recorder) OnNode()                      { r.add(Ev{K: KNode}) }
func (r *Recorder) OnEndContainer()              { r.add(Ev{K: KEndContainer}) }
func (r *Recorder) OnMarker(id []byte)           { r.add(Ev{K: KMarker, S: cp(id)}) }
func (r *Recorder) OnReferenceLocal(id []byte)   { r.add(Ev{K: KReferenceLocal, S: cp(id)}) }
func (r *Recorder) OnArray(at events.ArrayType, n uint64, d []byte) {
	r.add(Ev{K: KArray, AT: at, U: n, S: cp(d)})
}
func (r *Recorder) OnStringlikeArray(at events.ArrayType, d string) {
	r.add(Ev{K: KStringlikeArray, AT: at, S: []byte(d)})
}
func (r *Recorder) OnMedia(mt string, d []byte)        { r.add(Ev{K: KMedia, MT: mt, S: cp(d)}) }
func (r *Recorder) OnCustomBinary(ct uint64, d []byte) { r.add(Ev{K: KCustomBinary, U: ct, S: cp(d)}) }
func (r *Recorder) OnCustomText(ct uint64, d string)   { r.add(Ev{K: KCustomText, U: ct, S: []byte(d)}) }
func (r *Recorder) OnArrayBegin(at events.ArrayType)   { r.add(Ev{K: KArrayBegin, AT: at}) }
func (r *Recorder) OnMediaBegin(mt string)             { r.add(Ev{K: KMediaBegin, MT: mt}) }
func (r *Recorder) OnCustomBegin(at events.ArrayType, ct uint64) {
	r.add(Ev{K: KCustomBegin, AT: at, U: ct})
}
func (r *Recorder) OnArrayChunk(n uint64, more bool) { r.add(Ev{K: KArrayChunk, U: n, B: more}) }
func (r *Recorder) OnArrayData(d []byte)             { r.add(Ev{K: KArrayData, S: cp(d)}) }
func (r *Recorder) OnError()                         { r.add(Ev{K: KError}) }

var _ events.DataEventReceiver = (*Recorder)(nil)

// Normalize merges consecutive array-data events and whole-array forms into a
// chunking-independent shape: used where the property says chunking/splitting
// must not matter. Array begin + chunks + data become one "arr" style event
// per array carrying the concatenated payload.
func Normalize(evs []Ev) []string {
	var out []string
	i := 0
	for i < len(evs) {
		e := evs[i]
		switch e.K {
		case KArrayBegin, KMediaBegin, KCustomBegin:
			head := e.String()
			var payload []byte
			j := i + 1
			done := false
			for j < len(evs) && !done {
				switch evs[j].K {
				case KArrayChunk:
					if !evs[j].B {
						// final chunk: consume its data then stop
						need := evs[j].U
						_ = need
						j++
						for j < len(evs) && evs[j].K == KArrayData {
							payload = append(payload, evs[j].S...)
							j++
						}
						done = true
						continue
					}
					j++
				case KArrayData:
					payload = append(payload, evs[j].S...)
					j++
				default:
					done = true
				}
			}
			out = append(out, fmt.Sprintf("%s[%x]", head, payload))
			i = j
		default:
			out = append(out, e.String())
			i++
		}
	}
	return out
}
