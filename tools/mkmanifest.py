#!/usr/bin/env python3
"""Regenerates /verif/MANIFEST.json from the tables below (kept in one place so
that claimed checks and not_applicable always cover all 29 properties)."""
import json, os, sys

V = "/verif"
REPO_FIX_AND_HOOK_COMMITS = ["988c6e2", "d62d56a", "ae39819"]

claimed = {
    "C07": dict(cat="exploration", ref="5.1", technique="deterministic simulation: storage-fault injection on generated documents + reader delivery schedules, watchdog and memory-capped child as invariant monitors",
                text="Seeded search over stored-document corruptions (bit/byte flips, zeroed/duplicated/misdirected ranges, truncation, overwritten length fields, garbage, empty), deep nesting, reader delivery plans, templates (incl. unsupported kinds) and marshal values (incl. unsupported kinds) for every public decode/unmarshal/marshal entry point; invariants per call: returns within the watchdog, no escaped panic, worker process survives under an 3 GiB address-space cap. Exploration is the right level: the input space is unbounded and the failure classes (hang, process death) can only be observed by running the real code under a monitor.",
                note="Sampling, not proof. Watchdog is wall-clock (20 s quick / 40 s thorough per call whose normal cost is < 10 ms). Workers cap the address space (3 GiB) and the goroutine stack (64 MB). Documents <= a few KiB, plus huge-exponent numbers, self-containing values and, rarely, 300 000 levels of CTE nesting."),
    "C08": dict(cat="exploration", ref="5.2", technique="deterministic simulation: storage-fault injection aimed at length fields + adversarial document families, allocator (TotalAlloc) and address-space-capped worker as the observed resource, deterministic work-step counters",
                text="Decides the memory clause: one measured decode per run of a document whose length fields were corrupted in storage, of a short document built around one oversized length header, of a container run or a growing benign family, under several MaxArraySizeBytes settings; allocation during exactly that call must stay within 2*base + 4 MiB + K*len(doc) + 8*MaxArraySizeBytes with base measured in-process and K checked by a start-up calibration (exit 2 if benign families are not 10x below the budget); the worker dying of out-of-memory under its 3 GiB cap is a violation by itself. One run in forty measures one construct at two sizes (n, 4n; 23 document families) and requires alloc(4n) <= 6*alloc(n) + 4 MiB, which sees quadratic cost that a per-byte constant cannot. A work-step bound (reader calls + events <= 8*len+64) stands in for the time clause.",
                note="The CPU-time clause is NOT decided: deterministic simulation does not measure CPU seconds; superlinear CPU work that makes no extra reader call or event is outside this technique. K is deliberately generous (4096 CBE / 16384 CTE bytes per input byte) because unmarshaling really costs hundreds of bytes per input byte; the violations aimed at are 10^2..10^9 times larger."),
    "C09": dict(cat="fault_enumeration", ref="5.3", technique="deterministic simulation: exhaustive crash-point (cut) enumeration per generated document, prefix relation + completeness reference model",
                text="For each generated valid document every cut point 0<k<len is enumerated for the from-memory and the reader entry point and for untyped/typed templates; oracle: error returned, partial value is a prefix of the full value, and (event-stream documents) every completely delivered list element / map entry is present per a reference model built from recorded encoder offsets. Fault enumeration is the right level: the crash-point space of one document is finite and small, the document space is sampled.",
                note="Rule enforcement stays on (with rules disabled nothing is meant to detect a structurally incomplete document). Zero value of a template type counts as 'nothing decoded'. Marker-wrapped arrays are excluded from documents because the library's full value for them is already wrong (a pure decode defect outside this property); records are drawn in two thirds of the stream-built documents (opaque to the completeness model, subject to the prefix clause). One known finding (CTE token split by the cut)."),
    "C11": dict(cat="exploration", ref="5.4", technique="deterministic simulation: producer flush-schedule exploration (chunk boundaries x data-event splits) with injected delivery faults against a reference array acceptor",
                text="The same array is delivered to a fresh validator under exhaustive single/double splits (small payloads), drawn multi-chunk schedules incl. splits inside elements and characters and zero-length chunks, and fault schedules (under/over delivery, missing final chunk, chunk ending inside a character, invalid UTF-8, data after the end, wrong header, invalid media type); verdict must equal a 60-line reference acceptor written from the property statement and forwarded bytes must equal delivered bytes.",
                note="Reference acceptor is the trusted base; MaxArraySizeBytes stays at its default (limits are C14) except in the position 'second array under a limit that fits each array but not both'."),
    "C16": dict(cat="exploration", ref="5.5", technique="deterministic simulation: seeded operation histories with injected failures (unsupported kinds, corrupt/truncated documents, limit violations, mid-operation I/O faults, producer aborts) on one long-lived instance, fresh instance as executable reference model",
                text="Drawn histories of 2-12 operations on one reused marshaler / unmarshaler / encoder / decoder / validator(Reset), each operation also executed on a fresh instance with identical simulated reader/writer plans; compared call by call: bytes written incl. the prefix before a failure, events forwarded, value, err==nil, rejecting event; a hang of the reused instance is a deadlock/livelock violation (watchdog + goroutine-state classification).",
                note="Each use of a generated value gets its own freshly built copy so that argument mutation (another property) cannot make the two sides see different inputs."),
    "C17": dict(cat="exploration", ref="5.6", technique="deterministic simulation: seeded serialising scheduler over caller threads (raw-pipe hand-off invisible to the race detector, real blocking detected from goroutine state), Go race detector as per-schedule invariant, sequential execution on fresh instances as reference",
                text="2-6 simulated caller threads, 1-3 operations each, on cold shared iterator/builder sessions or package-level state only, first use of new (also recursive and unsupported) types racing in the type caches; the tape picks the next thread at every yield point (operation boundary, reader/writer call, event, type-cache hook site). Invariants per schedule: no race report with a library frame (-race worker), no deadlock/livelock, every call's bytes/value/events/err equal the same call alone on fresh instances.",
                note="Schedules interleave at yield points, not at every memory access (races are still detected at access granularity on each explored schedule). Porcupine is not used: operations act on separate instances, so per-call comparison is the linearizability check. Next to an error, nil and an untouched zero value are both 'nothing decoded'."),
    "C23": dict(cat="exploration", ref="5.7", technique="deterministic simulation: producer flush-schedule exploration against the whole-array delivery of the same event stream",
                text="For generated rules-valid, array-heavy event streams the CTE encoder's output under re-chunked / re-split deliveries (element-aligned and arbitrary, inside characters, zero-length chunks, one byte per data event; optionally behind the validator) must be byte-identical to the output for whole-array delivery.",
                note="Decides the first sentence only. The second sentence (decode+encode reproduces the text) is a pure function of the input: it is observed and counted in the evidence, not decided (two genuine decoder defects found that way were repaired; remaining differences come from non-canonical big-number source events)."),
    "C28": dict(cat="exploration", ref="5.8", technique="deterministic simulation: reader delivery-schedule exploration (fragmentation, zero-length reads, data+EOF, scratch scribbling) against the from-memory decode",
                text="For generated valid and storage-corrupted documents, every reader entry point is run under drawn delivery plans and, for small documents, every single split offset, every single (0,nil) position, data+EOF and one-byte delivery; result (error-ness, value or event list, also partial ones) must equal the from-memory twin on fresh instances.",
                note="SimReader implements io.Reader only (no WriterTo/ByteReader fast paths); at most two (0,nil) reads in a row."),
    "C29": dict(cat="fault_enumeration", ref="5.9", technique="deterministic simulation: exhaustive single I/O-fault position enumeration (writer call/byte positions x 2 writer flavours, reader offsets x 3 kinds) plus seeded multi-fault sequences",
                text="After a fault-free control every single write-failure position (call index, byte count; io.Writer and io.Writer+io.StringWriter flavours; plain, short-write and transient) and every single read-failure offset ((0,err), (m,err), transient, and from sources that report the error once and then continue or end cleanly; three delivery plans) is enumerated for marshal, unmarshal/decode and the low-level encoder API; a fired fault must yield a non-nil error (encoder event: must not return normally), never an escaped panic; an unfired fault must not change the result.",
                note="Short writes with a nil error are not injected (they violate the io.Writer contract)."),
}

na = {
    "C01": "pure function of the event stream (chunk boundaries are data in the document, not a delivery schedule); no fault, schedule or history to search - a property-based/bounded-exhaustive testing target",
    "C02": "pure function of the event stream; nothing for a scheduler or fault injector to vary",
    "C03": "pure function of a document; no schedule, fault or interleaving in it",
    "C04": "pure function of a Go value and type; no schedule, fault or history",
    "C05": "pure function of a Go value and configuration",
    "C06": "pure function of a fully delivered document",
    "C10": "deterministic acceptor over an event word: deciding it is language-equivalence checking (bounded enumeration / model checking), there is no fault or schedule in it",
    "C12": "pure function of a key multiset",
    "C13": "pure function of an event stream",
    "C14": "pure function of (document, configuration); the byte counter it mentions counts delivered bytes, which are all delivered",
    "C15": "pure, event-by-event pass-through; no schedule or fault",
    "C18": "single-threaded before/after comparison of one call (C17 sees in-place mutation only as a race, which does not decide C18)",
    "C19": "pure function of (number, destination kind)",
    "C20": "pure function of a pointer graph; termination of one call on one input, with no fault to stop",
    "C21": "pure function of (type, value, configuration)",
    "C22": "pure function of a value",
    "C24": "pure function of literal text",
    "C25": "pure function of (array, format setting)",
    "C26": "pure function of a slice",
    "C27": "pure function of a document's first bytes (the reader entry points' dependence on delivery is C28)",
}

pending = {}

def main():
    repo_commits = os.popen("git -C /repo log --format=%h --grep='^verif hooks'").read().split()
    checks = []
    for pid in sorted(claimed):
        c = claimed[pid]
        checks.append({
            "property_id": pid,
            "quick_cmd": f"bin/check {pid} quick",
            "thorough_cmd": f"bin/check {pid} thorough",
            "evidence_file": f"/verif/evidence/{pid}.json",
            "replay_cmd_template": f"bin/check {pid} --replay {{path}}",
            "engine": "simcheck",
            "level_claimed": {"category": c["cat"], "text": c["text"], "design_ref": "DESIGN.md " + c["ref"]},
            "level_note": c["note"],
            "technique": c["technique"],
        })
    nas = [{"property_id": k, "reason": v} for k, v in sorted({**na, **{k: v for k, v in pending.items() if k not in claimed}}.items())]
    m = {
        "version": 1,
        "setup_cmd": "bin/build && bin/build race",
        "hooks": {
            "guard": "verif",
            "enable": "go build -tags verif (bin/build; hook sites: iterator/session.go, builder/session.go simYield calls - since the repair d62d56a of the type-cache protocol and ae39819: :miss, :stored; simhook_verif.go/simhook_off.go)",
            "baseline_off_cmd": "cd /repo && GOFLAGS=-mod=mod GOPROXY=off GOSUMDB=off GOTOOLCHAIN=local go test -vet=off -count=1 ./...",
            "source_commits": REPO_FIX_AND_HOOK_COMMITS,
            "add_only": True,
        },
        "engines": [{"name": "simcheck", "path": "/verif/sim", "serves_properties": sorted(claimed), "kind_free_text": "deterministic simulation with fault injection: one choice tape per run (VERIF_SEED), simulated reader/writer/storage/producer, parent-child process model with watchdog and memory cap, tape minimisation and fresh-process replay"}],
        "checks": checks,
        "not_applicable": nas,
        "notes": "See DESIGN.md. Known findings and repaired defects: known_findings.txt. Replay files: replays/. VERIF_SEED selects the documents, values, plans and schedules explored; exit 2 = infrastructure trouble (never a violation).",
    }
    json.dump(m, open(os.path.join(V, "MANIFEST.json"), "w"), indent=1)
    print("claimed", sorted(claimed), "n/a", len(nas))

if __name__ == "__main__":
    main()
