#!/bin/sh
# Re-runs every kept seeded change that still applies to /repo HEAD against the CURRENT
# checks, without re-confirming it (suite and demonstration were confirmed when it was
# kept) and without minimising: scratch worktree, git apply, bin/check <prop> quick.
# usage: tools/seedquick.sh [ids...]   prints one line per seeded change
. "$(dirname "$0")/../bin/env.sh"
cd "$VERIF_DIR" || exit 2
ids="${*:-$(ls seeded)}"
for id in $ids; do
  p=$(echo "$id" | cut -d- -f1)
  wt="/tmp/seedq-$id"
  git -C /repo worktree remove --force "$wt" >/dev/null 2>&1
  git -C /repo worktree add -q --detach "$wt" HEAD || exit 2
  if ! git -C "$wt" apply "$VERIF_DIR/seeded/$id/patch.diff" 2>/dev/null; then
    echo "SEED $id prop=$p does-not-apply-to-HEAD"
    git -C /repo worktree remove --force "$wt" >/dev/null 2>&1
    continue
  fi
  b="$VERIF_DIR/.build/seedq-$id"
  VERIF_MAX_SHRINKS=0 VERIF_REPO="$wt" VERIF_BUILD_DIR="$b" VERIF_REPLAY_DIR="$b/replays" VERIF_EVIDENCE_DIR="$b/evidence" "$VERIF_DIR/bin/check" "$p" quick > "/tmp/seedq_$id.log" 2>&1; chk=$?
  viol=$(grep -c '^VIOLATION' "/tmp/seedq_$id.log")
  first=$(grep -m1 '^violation:' "/tmp/seedq_$id.log" | cut -c12-150)
  echo "SEED $id prop=$p check_exit=$chk violations=$viol $first"
  git -C /repo worktree remove --force "$wt" >/dev/null 2>&1
  rm -rf "$b"
done
