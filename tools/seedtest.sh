#!/bin/sh
# usage: tools/seedtest.sh <property> <dir-with-patch.diff-and-demo_test.go> [tier]
# Confirms a seeded change in a scratch worktree of /repo (suite passes, demonstration
# fails with it and passes without it) and runs the property's check against that
# worktree (VERIF_REPO). /repo itself is not touched. Prints a RESULT line.
. "$(dirname "$0")/../bin/env.sh"
p="$1"; d="$2"; tier="${3:-quick}"
[ -f "$d/patch.diff" ] || { echo "no patch in $d"; exit 2; }
demo="$d/demo_test.go"; [ -f "$demo" ] || demo="$d/demo_test.go.txt"
id="$(basename "$d")"; case "$id" in [0-9]*) id="$(basename "$(dirname "$d")")-$id";; esac
wt="/tmp/seedwt-$id"
git -C /repo worktree remove --force "$wt" >/dev/null 2>&1
git -C /repo worktree add -q --detach "$wt" HEAD || exit 2
cleanup() { git -C /repo worktree remove --force "$wt" >/dev/null 2>&1; rm -rf "$VERIF_DIR/.build/seed-$id"; }
trap cleanup EXIT INT TERM
race=""; [ "$p" = C17 ] && race="-race"
pkg=$(grep -m1 '^package ' "$demo" | awk '{print $2}')
tests=$(grep -o '^func Test[A-Za-z0-9_]*' "$demo" | sed 's/func //' | paste -sd'|')
rundemo() {
  if [ "$pkg" = concise_encoding ] || [ "$pkg" = concise_encoding_test ]; then
    cp "$demo" "$wt/zz_seed_demo_test.go"
    (cd "$wt" && timeout 600 go test $race -vet=off -count=1 -run "^($tests)\$" . >/tmp/seed_demo_$id.log 2>&1; echo $?); rm -f "$wt/zz_seed_demo_test.go"
  else
    mkdir -p "$wt/zz_seed_demo" && cp "$demo" "$wt/zz_seed_demo/demo_test.go"
    (cd "$wt" && timeout 600 go test $race -vet=off -count=1 ./zz_seed_demo/ >/tmp/seed_demo_$id.log 2>&1; echo $?); rm -rf "$wt/zz_seed_demo"
  fi
}
demo_without=$(rundemo)
git -C "$wt" apply "$d/patch.diff" || { echo "RESULT $id patch does not apply"; exit 2; }
(cd "$wt" && go build ./... >/tmp/seed_build_$id.log 2>&1) || { echo "RESULT $id does not compile"; exit 2; }
suite=$(cd "$wt" && go test -vet=off -count=1 ./... 2>&1 | grep -c '^FAIL\|^--- FAIL\|^panic:')
demo_with=$(rundemo)
VERIF_REPO="$wt" VERIF_BUILD_DIR="$VERIF_DIR/.build/seed-$id" VERIF_REPLAY_DIR="$VERIF_DIR/.build/seed-$id/replays" VERIF_EVIDENCE_DIR="$VERIF_DIR/.build/seed-$id/evidence" "$VERIF_DIR/bin/check" $p $tier > /tmp/seed_check_$id.log 2>&1; chk=$?
viol=$(grep -c '^VIOLATION' /tmp/seed_check_$id.log)
echo "RESULT $id prop=$p tier=$tier suite_failures=$suite demo_without=$demo_without demo_with=$demo_with check_exit=$chk violations=$viol"
grep -E '^violation:|^INFRA' /tmp/seed_check_$id.log | cut -c1-230 | head -6
