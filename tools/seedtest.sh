#!/bin/sh
# usage: tools/seedtest.sh <property> <dir-with-patch.diff-and-demo_test.go> [tier]
# Applies a seeded change to /repo, confirms it (suite passes, demo fails), runs the
# property's check, restores /repo, confirms the demo passes again. Prints a summary.
. "$(dirname "$0")/../bin/env.sh"
p="$1"; d="$2"; tier="${3:-quick}"
[ -f "$d/patch.diff" ] || { echo "no patch in $d"; exit 2; }
[ -z "$(git -C /repo status --porcelain)" ] || { echo "/repo not clean"; exit 2; }
restore() { git -C /repo checkout -- . ; rm -rf /repo/zz_seed_demo; }
trap restore EXIT INT TERM
race=""; [ "$p" = C17 ] && race="-race"
rundemo() { mkdir -p /repo/zz_seed_demo && cp "$d"/demo_test.go /repo/zz_seed_demo/demo_test.go && (cd /repo/zz_seed_demo && timeout 300 go test $race -vet=off -count=1 . >/tmp/seed_demo.log 2>&1; echo $?) ; rm -rf /repo/zz_seed_demo; }
git -C /repo apply "$d/patch.diff" || { echo "RESULT patch does not apply"; exit 2; }
(cd /repo && go build ./... >/tmp/seed_build.log 2>&1) || { echo "RESULT does not compile"; exit 2; }
suite=$(cd /repo && go test -vet=off -count=1 ./... 2>&1 | grep -c '^FAIL\|^---\ FAIL\|panic:')
demo_with=$(rundemo)
"$(dirname "$0")/../bin/check" $p $tier > /tmp/seed_check.log 2>&1; chk=$?
viol=$(grep -c '^VIOLATION' /tmp/seed_check.log)
restore
demo_without=$(rundemo)
echo "RESULT suite_failures=$suite demo_with_patch_exit=$demo_with demo_without_patch_exit=$demo_without check_exit=$chk violations=$viol"
grep -E '^violation:|^VIOLATION|^INFRA' /tmp/seed_check.log | cut -c1-260 | head -12
