#!/bin/sh
# DESIGN.md is assembled from docsrc/ parts; section 11's table comes from seeded/*/meta.json
cd "$(dirname "$0")/.." || exit 1
python3 - <<'PY'
import json,glob,os
rows=[]
for m in sorted(glob.glob('seeded/*/meta.json')):
    j=json.load(open(m))
    rows.append(j)
if rows:
    t="Independent sub-agents were given only the text of one property and a scratch worktree\nof the repository and asked for changes that break the property while compiling and passing\nthe repository's test suite, preferably needing something specific to manifest. Each kept\nchange (confirmed by me: suite passes, demonstration fails with it and passes without) is\nunder `seeded/<id>/` (`patch.diff`, demonstration, `meta.json`). Each was applied to `/repo`\n(`git apply`), the property's check was run, and `/repo` was restored (`git checkout -- .`).\n\n| seeded change | property | what it does | needs | caught by | how |\n|---|---|---|---|---|---|\n"
    for j in rows:
        t+="| %s | %s | %s | %s | %s | %s |\n"%(j['id'],j['property'],j['summary'].replace('|','/'),j.get('needs','').replace('|','/'),j.get('caught_by','—'),j.get('caught_how','').replace('|','/'))
    n=sum(1 for j in rows if j.get('caught_by') and j.get('caught_by')!='—' and not j.get('caught_by','').startswith('not'))
    t+="\n%d of %d seeded changes are reported as VIOLATION by the quick tier of the property's check unless noted.\n"%(n,len(rows))
    extra='docsrc/seeded_notes.md'
    if os.path.exists(extra): t+="\n"+open(extra).read()
else:
    t="(no seeded changes recorded yet)"
parts=['design_head.md','sec1.md','design_mid.md','sec6.md','sec7.md','design_tail.md','design_end.md']
s=''.join(open('docsrc/'+p).read() for p in parts)
open('DESIGN.md','w').write(s.replace('SEEDED_TABLE_PLACEHOLDER',t))
PY
