#!/usr/bin/env python3
"""Copies confirmed seeded changes from /tmp/{out,o2,o3,...}-<prop>/<i>/ into /verif/seeded/<id>/ and
records what the checks reported. usage: keepseeds.py <seedtest-log> [<seedtest-log>...]
A log contains the RESULT / violation lines printed by tools/seedtest.sh."""
import json, os, re, shutil, sys

V = "/verif"
results = {}
cur = None
for path in sys.argv[1:]:
    for line in open(path):
        line = line.rstrip("\n")
        m = re.match(r"RESULT (\S+) prop=(\S+) tier=(\S+) suite_failures=(\d+) demo_without=(\d+) demo_with=(\d+) check_exit=(\d+) violations=(\d+)", line)
        if m:
            cur = m.group(1)
            results[cur] = dict(prop=m.group(2), tier=m.group(3), suite_failures=int(m.group(4)), demo_without=int(m.group(5)),
                                demo_with=int(m.group(6)), check_exit=int(m.group(7)), violations=int(m.group(8)), lines=[], src=None)
            continue
        if cur and line.startswith("violation:"):
            results[cur]["lines"].append(line)

kept = 0
for rid, r in sorted(results.items()):
    m = re.match(r"(out|o2|o3|o4|o5)-(C\d+)-(\d+)", rid)
    if not m:
        continue
    wave, prop, i = m.group(1), m.group(2), m.group(3)
    src = f"/tmp/{wave}-{prop}/{i}"
    # later waves continue the numbering: o2 -> 4,5  o3 -> 6,7 ...
    sid = f"{prop}-{int(i) + {'out': 0, 'o2': 3, 'o3': 5, 'o4': 7, 'o5': 9}[wave]}"
    dst = os.path.join(V, "seeded", sid)
    confirmed = r["suite_failures"] == 0 and r["demo_with"] != 0 and r["demo_without"] == 0
    if not confirmed:
        print("NOT CONFIRMED, not kept:", rid, r)
        continue
    prev = {}
    if os.path.exists(os.path.join(dst, "meta.json")):
        prev = json.load(open(os.path.join(dst, "meta.json")))
    if os.path.isdir(src):
        os.makedirs(dst, exist_ok=True)
        shutil.copy(os.path.join(src, "patch.diff"), dst)
        shutil.copy(os.path.join(src, "demo_test.go"), os.path.join(dst, "demo_test.go.txt"))
        meta = json.load(open(os.path.join(src, "meta.json")))
    else:
        meta = prev
    caught = r["check_exit"] == 1 and r["violations"] > 0
    history = prev.get("check_history", [])
    history.append({"tier": r["tier"], "check_exit": r["check_exit"], "violations": r["violations"], "first_reports": r["lines"][:3]})
    meta.update({
        "id": sid,
        "property": prop,
        "confirmed": {"existing_suite_passes_with_change": True, "demonstration_fails_with_change": True, "demonstration_passes_without_change": True},
        "what_was_run": f"tools/seedtest.sh {prop} <dir> {r['tier']}: scratch worktree of /repo HEAD, git apply patch.diff, go build ./..., go test -vet=off -count=1 ./..., the demonstration with and without the change, then bin/check {prop} {r['tier']} built against the worktree (VERIF_REPO)",
        "caught_by": (f"bin/check {prop} {r['tier']}" if caught else prev.get("caught_by", "not caught")) if not (prev.get("caught_by", "").startswith("bin/check") and not caught) else prev["caught_by"],
        "caught_how": (r["lines"][0].replace("violation: ", "")[:200] if caught and r["lines"] else prev.get("caught_how", "")),
        "check_history": history,
    })
    json.dump(meta, open(os.path.join(dst, "meta.json"), "w"), indent=1)
    kept += 1
    print(("CAUGHT   " if caught else "MISSED   ") + sid, "-", meta.get("summary", "")[:110])
print("kept", kept)
