#!/bin/sh
# re-runs every kept seeded change against the current checks: tools/seedall.sh [tier] [ids...]
cd "$(dirname "$0")/.." || exit 2
tier="${1:-quick}"; [ $# -gt 0 ] && shift
ids="${*:-$(ls seeded)}"
for id in $ids; do
  p=$(echo $id | cut -d- -f1)
  VERIF_MAX_SHRINKS=${VERIF_MAX_SHRINKS:-2} tools/seedtest.sh $p seeded/$id $tier 2>&1 | grep -E "^RESULT|^violation" | cut -c1-240
done
